//! C12 (concurrent part): loom explores every interleaving of the refcount
//! operations of atomic tendrils whose clones are distributed over threads.
//! /repo's tendril sources are compiled by the shadow manifest with
//! --cfg html5ever_verif_loom (AtomicUsize/fence come from loom).
//!
//! Monitors: a watching allocator (the shared buffer must be freed exactly
//! once, only after every reader is done, never leaked; freed memory is
//! poisoned and quarantined so a late read is seen as wrong content), and a
//! loom UnsafeCell "shadow" of the buffer: every harness read is a shadow read
//! and the free is a shadow write, so loom's causality checker also rejects a
//! free that does not happen-after a read (i.e. it checks the Release/Acquire
//! protocol of the refcount, not only its atomicity).
use std::alloc::{GlobalAlloc, Layout, System};
use std::cell::{Cell, RefCell};
use std::sync::atomic::{AtomicU64, Ordering};
use tendril::{fmt, Atomic, Tendril};

type T = Tendril<fmt::Bytes, Atomic>;
const LEN: usize = 3000;
const POISON: u8 = 0xDD;

#[derive(Clone, Copy)]
struct Entry {
    addr: usize,
    size: usize,
    align: usize,
    freed: bool,
}

thread_local! {
    static TRACK: Cell<bool> = const { Cell::new(false) };
    static TABLE: RefCell<[Option<Entry>; 32]> = const { RefCell::new([None; 32]) };
    static FLAG: Cell<u32> = const { Cell::new(0) }; // 1 = double free, 2 = table full
    static SHADOW: RefCell<Option<(usize, &'static loom::cell::UnsafeCell<u8>)>> = const { RefCell::new(None) };
}
static EXECS: AtomicU64 = AtomicU64::new(0);

struct Watch;
fn in_window(n: usize) -> bool {
    (LEN..LEN + 400).contains(&n) || (4096..4096 + 400).contains(&n)
}
unsafe impl GlobalAlloc for Watch {
    unsafe fn alloc(&self, l: Layout) -> *mut u8 {
        let p = System.alloc(l);
        if !p.is_null() && in_window(l.size()) && TRACK.try_with(|t| t.get()).unwrap_or(false) {
            let _ = TABLE.try_with(|t| {
                if let Ok(mut t) = t.try_borrow_mut() {
                    if let Some(slot) = t.iter_mut().find(|e| e.is_none()) {
                        *slot = Some(Entry { addr: p as usize, size: l.size(), align: l.align(), freed: false });
                    } else {
                        FLAG.with(|f| f.set(f.get() | 2));
                    }
                }
            });
        }
        p
    }
    unsafe fn dealloc(&self, p: *mut u8, l: Layout) {
        let mut quarantined = false;
        let _ = TABLE.try_with(|t| {
            if let Ok(mut t) = t.try_borrow_mut() {
                for e in t.iter_mut().flatten() {
                    if e.addr == p as usize {
                        quarantined = true;
                        if e.freed {
                            FLAG.with(|f| f.set(f.get() | 1));
                        } else {
                            e.freed = true;
                            std::ptr::write_bytes(p, POISON, e.size);
                        }
                    }
                }
            }
        });
        if quarantined {
            // the free of the shared buffer is a write access for loom's causality check
            let sh = SHADOW.try_with(|s| s.try_borrow().ok().and_then(|s| *s)).ok().flatten();
            if let Some((addr, cell)) = sh {
                if addr == p as usize {
                    cell.with_mut(|_| ());
                }
            }
            return;
        }
        System.dealloc(p, l)
    }
}
#[global_allocator]
static G: Watch = Watch;

fn tracked<R>(f: impl FnOnce() -> R) -> R {
    TRACK.with(|t| t.set(true));
    let r = f();
    TRACK.with(|t| t.set(false));
    r
}

fn pattern(i: usize) -> u8 {
    (i % 251) as u8
}

/// read through the shadow cell: loom checks this read against the free
fn verify(t: &T, off: usize, len: usize, what: &str) {
    let sh = SHADOW.with(|s| *s.borrow());
    let body = || {
        let b: &[u8] = t;
        assert_eq!(b.len(), len, "C12-LOOM-VIOLATION {what}: wrong length");
        for (i, x) in b.iter().enumerate() {
            if *x != pattern(off + i) {
                panic!("C12-LOOM-VIOLATION {what}: byte {i} is {x:#x}, expected {:#x} (0xDD = read after free)", pattern(off + i));
            }
        }
    };
    match sh {
        Some((_, cell)) => cell.with(|_| body()),
        None => body(),
    }
}

#[derive(Clone, Copy, Debug, PartialEq)]
enum Act {
    Drop,
    ReadDrop,
    CloneDrop,
    SubDrop,
    PushDrop,
    PopRead,
    CloneKeep, // clone, drop the original first, read the clone late
}
const ACTS: [Act; 7] = [Act::Drop, Act::ReadDrop, Act::CloneDrop, Act::SubDrop, Act::PushDrop, Act::PopRead, Act::CloneKeep];

fn act(a: Act, mut h: T) {
    match a {
        Act::Drop => tracked(|| drop(h)),
        Act::ReadDrop => {
            verify(&h, 0, LEN, "read");
            tracked(|| drop(h));
        },
        Act::CloneDrop => {
            let c = tracked(|| h.clone());
            verify(&c, 0, LEN, "clone");
            tracked(|| drop(c));
            tracked(|| drop(h));
        },
        Act::CloneKeep => {
            let c = tracked(|| h.clone());
            tracked(|| drop(h));
            verify(&c, 0, LEN, "late clone");
            tracked(|| drop(c));
        },
        Act::SubDrop => {
            let s = tracked(|| h.subtendril(100, 2000));
            tracked(|| drop(h));
            verify(&s, 100, 2000, "subtendril");
            tracked(|| drop(s));
        },
        Act::PushDrop => {
            tracked(|| h.push_slice(b"xyz"));
            let b: &[u8] = &h;
            assert_eq!(b.len(), LEN + 3, "C12-LOOM-VIOLATION push: wrong length");
            for i in 0..LEN {
                assert_eq!(b[i], pattern(i), "C12-LOOM-VIOLATION push: copied byte {i} wrong");
            }
            assert_eq!(&b[LEN..], b"xyz");
            tracked(|| drop(h));
        },
        Act::PopRead => {
            tracked(|| h.pop_front(7));
            verify(&h, 7, LEN - 7, "pop_front view");
            tracked(|| drop(h));
        },
    }
}

fn end_of_execution(name: &str) {
    let flag = FLAG.with(|f| f.replace(0));
    let mut leaked = 0;
    let mut n = 0;
    TABLE.with(|t| {
        let mut t = t.borrow_mut();
        for e in t.iter_mut() {
            if let Some(x) = e.take() {
                n += 1;
                if !x.freed {
                    leaked += 1;
                }
                unsafe { System.dealloc(x.addr as *mut u8, Layout::from_size_align_unchecked(x.size, x.align)) };
            }
        }
    });
    SHADOW.with(|s| *s.borrow_mut() = None);
    if flag & 1 != 0 {
        panic!("C12-LOOM-VIOLATION {name}: a tendril buffer was freed twice");
    }
    if flag & 2 != 0 {
        panic!("MACHINERY watch table full");
    }
    if leaked > 0 {
        panic!("C12-LOOM-VIOLATION {name}: {leaked} tendril buffer(s) never freed");
    }
    if n == 0 {
        panic!("MACHINERY {name}: allocator saw no tendril buffer (vacuous)");
    }
}

fn scenario(acts: &[Act], bound: Option<usize>) -> u64 {
    let name = format!("{acts:?}");
    let before = EXECS.load(Ordering::Relaxed);
    let mut b = loom::model::Builder::new();
    b.preemption_bound = bound;
    b.max_branches = 100_000;
    let acts = acts.to_vec();
    b.check(move || {
        EXECS.fetch_add(1, Ordering::Relaxed);
        let data: Vec<u8> = (0..LEN).map(pattern).collect();
        let t0: T = tracked(|| Tendril::from_slice(&data[..]));
        // the watched block allocated by from_slice is the shared buffer
        let addr = TABLE.with(|t| t.borrow().iter().flatten().next().map(|e| e.addr));
        let cell: &'static loom::cell::UnsafeCell<u8> = Box::leak(Box::new(loom::cell::UnsafeCell::new(0u8)));
        if let Some(a) = addr {
            SHADOW.with(|s| *s.borrow_mut() = Some((a, cell)));
        }
        let mut handles = vec![];
        let mut clones: Vec<T> = (1..acts.len()).map(|_| tracked(|| t0.clone())).collect();
        for (i, a) in acts.iter().enumerate().skip(1) {
            let h = clones.remove(0);
            let a = *a;
            let _ = i;
            handles.push(loom::thread::spawn(move || act(a, h)));
        }
        act(acts[0], t0);
        for h in handles {
            h.join().unwrap();
        }
        end_of_execution(&name);
    });
    EXECS.load(Ordering::Relaxed) - before
}


static FIRST_PANIC: std::sync::Mutex<Option<String>> = std::sync::Mutex::new(None);
static CURRENT: std::sync::Mutex<String> = std::sync::Mutex::new(String::new());

fn parse_act(s: &str) -> Act {
    *ACTS.iter().find(|a| format!("{a:?}") == s.trim()).unwrap_or_else(|| panic!("MACHINERY unknown act {s}"))
}

fn main() {
    let args: Vec<String> = std::env::args().collect();
    let tier = args.get(1).map(|s| s.as_str()).unwrap_or("quick").to_string();
    let out = args.get(2).cloned().unwrap_or_else(|| "/verif/loomjob/target/c12_loom.json".into());
    let t0 = std::time::Instant::now();
    // The first panic of a scenario is the finding; a second panic while unwinding (typical when the
    // subject touches a freed reference count again in a destructor) aborts the process, so the first
    // one is written to the output file at once. A normal end overwrites the file.
    let hook_out = if tier == "--scenario" { args.get(3).cloned().unwrap_or_else(|| out.clone()) } else { out.clone() };
    std::panic::set_hook(Box::new(move |info| {
        let mut g = FIRST_PANIC.lock().unwrap_or_else(|e| e.into_inner());
        if g.is_none() {
            let msg = format!("{info}");
            let sc = CURRENT.lock().map(|c| c.clone()).unwrap_or_default();
            let j = serde_json::json!({
                "failed_scenario": sc,
                "message": msg,
                "machinery": msg.contains("MACHINERY"),
                "recorded_by": "panic hook (the process may have aborted afterwards)",
            });
            let _ = std::fs::write(&hook_out, serde_json::to_string_pretty(&j).unwrap_or_default());
            *g = Some(msg);
        }
    }));
    let mut scen: Vec<(Vec<Act>, Option<usize>)> = vec![];
    if tier == "--scenario" {
        // replay: loomjob --scenario "A,B,C" <out> [bound]
        let acts: Vec<Act> = args[2].split(',').map(parse_act).collect();
        let bound = args.get(4).and_then(|b| b.parse().ok());
        scen.push((acts, bound));
    } else {
        // two handles: every pair of actions, unbounded
        for a in ACTS {
            for b in ACTS {
                scen.push((vec![a, b], None));
            }
        }
        // three handles (main + 2 threads): every triple; T1/T2 symmetric so b <= c
        for a in ACTS.iter() {
            for (ib, b) in ACTS.iter().enumerate() {
                for (ic, c) in ACTS.iter().enumerate() {
                    if ib <= ic {
                        scen.push((vec![*a, *b, *c], if tier == "quick" { Some(3) } else { None }));
                    }
                }
            }
        }
        if tier == "thorough" {
            // four handles, preemption bound 2: all action multisets for the 3 spawned threads
            for a in [Act::Drop, Act::ReadDrop, Act::CloneKeep, Act::SubDrop] {
                for (ib, b) in ACTS.iter().enumerate() {
                    for (ic, c) in ACTS.iter().enumerate() {
                        for (id, d) in ACTS.iter().enumerate() {
                            if ib <= ic && ic <= id {
                                scen.push((vec![a, *b, *c, *d], Some(2)));
                            }
                        }
                    }
                }
            }
        }
    }
    let out = if tier == "--scenario" { args.get(3).cloned().unwrap_or(out) } else { out };
    let mut total = 0u64;
    let mut per = vec![];
    for (acts, bound) in &scen {
        *CURRENT.lock().unwrap() = acts.iter().map(|a| format!("{a:?}")).collect::<Vec<_>>().join(",");
        let r = std::panic::catch_unwind(std::panic::AssertUnwindSafe(|| scenario(acts, *bound)));
        match r {
            Ok(n) => {
                total += n;
                per.push(n);
            },
            Err(_) => {
                let msg = FIRST_PANIC.lock().unwrap().clone().unwrap_or_default();
                let names: Vec<String> = acts.iter().map(|a| format!("{a:?}")).collect();
                let j = serde_json::json!({
                    "failed_scenario": names.join(","),
                    "bound": bound,
                    "message": msg,
                    "interleavings_before_failure": total + (EXECS.load(Ordering::Relaxed) - per.iter().sum::<u64>() - 0),
                    "machinery": msg.contains("MACHINERY"),
                });
                std::fs::write(&out, serde_json::to_string_pretty(&j).unwrap()).unwrap();
                println!("C12 loom part FAILED: {j}");
                std::process::exit(if msg.contains("MACHINERY") { 2 } else { 1 });
            },
        }
    }
    let samples: Vec<String> = scen.iter().zip(&per).rev().take(3).map(|((a, b), n)| format!("{a:?} bound={b:?} interleavings={n}")).collect();
    let j = serde_json::json!({
        "scenarios": scen.len(),
        "interleavings": total,
        "max_interleavings_per_scenario": per.iter().max(),
        "preemption_bound_3_handles": if tier == "quick" { serde_json::json!(3) } else { serde_json::json!("unbounded") },
        "samples": samples,
        "wall_s": t0.elapsed().as_secs_f64(),
    });
    std::fs::write(&out, serde_json::to_string_pretty(&j).unwrap()).unwrap();
    println!("C12 loom part: {j}");
}
