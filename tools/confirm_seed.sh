#!/bin/bash
# confirm a seeded change inside its scratch worktree: suite passes with it, demo fails with it, demo passes without it
# usage: confirm_seed.sh <worktree>
wt="$1"; cd "$wt" || exit 2
export CARGO_NET_OFFLINE=true
demo=rcdom/tests/seeded_demo.rs
[ -f patch.diff ] && [ -f $demo ] || { echo "missing patch.diff or demo"; exit 2; }
mv $demo /tmp/$(basename $wt)_demo.rs
cargo test --workspace --no-fail-fast --offline > suite_with.log 2>&1
passed=$(grep -E "^test result" suite_with.log | awk '{s+=$4} END {print s}')
failed=$(grep -E "^test result" suite_with.log | awk '{s+=$6} END {print s}')
mv /tmp/$(basename $wt)_demo.rs $demo
cargo test -p markup5ever_rcdom --test seeded_demo --offline > demo_with.log 2>&1; dw=$?
git apply -R patch.diff || { echo "cannot reverse patch"; exit 2; }
cargo test -p markup5ever_rcdom --test seeded_demo --offline > demo_without.log 2>&1; dwo=$?
git apply patch.diff
echo "suite_with: passed=$passed failed=$failed ; demo_with exit=$dw (want !=0) ; demo_without exit=$dwo (want 0)"
if [ "$passed" = 142 ] && [ "$failed" = 0 ] && [ $dw -ne 0 ] && [ $dwo -eq 0 ]; then echo CONFIRMED; else echo NOT-CONFIRMED; fi
