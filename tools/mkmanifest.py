#!/usr/bin/env python3
"""Regenerates /verif/MANIFEST.json from the table below (single source of truth)."""
import json, sys, os
ALL = ["C%02d" % i for i in range(1, 21)]
# id -> (level, technique, text, note, design_ref, engine)
CHECKS = {
 "C13": ("model_checking",
   "explicit-state product search (real BufferQueue x Vec<String> model), closed graph",
   "Breadth-first search over every interleaving of push_back/push_front/next/peek/pop_front/pop_except_from/eat on the real BufferQueue in lock-step with a Vec<String> partition model; total queued text is capped (8 chars quick, 10 thorough) so the product graph is finite and the frontier closes; every transition compares the return value and the whole buffer partition.",
   "Content alphabet {a,b,A,<,&,U+00E9}; sets {<},{<,&},{}; patterns a,ab,aba,<a,U+00E9,a<,AB in both comparison modes; longer texts are covered only by the data-independence of the code. State key = partition + inline/heap class.",
   "DESIGN.md §3 C13", "E5 ops"),
}
CHECKS["C11"] = ("exploration",
   "stateless exhaustive DFS over operation sequences on the real Tendril vs Vec<u8> model",
   "Every sequence of up to 4 (quick) / 5 (thorough) operations from a ~90-symbol alphabet (make, push bytes/char/tendril, clone, subtendril, pop front/back, char pops, clear, reserve, SendTendril round trip, in-place write, drop) over a pool of 3 tendrils is executed from scratch on the real Tendril next to a Vec<u8> model, for UTF8/Bytes (NonAtomic and Atomic) and WTF8/ASCII/Latin1; plus all suffixes of length 3/4 from 9 representation witnesses (owned+capacity, shared pair, shared+offset, adjacent shared slices, ...). After each sequence every slot must hold the model's bytes, be valid for its format, and checked ops must fail iff the model says so.",
   "No state merging (capacity is invisible). Literal lengths 1/8/9/12/17 straddle the 8-byte inline limit; longer buffers and other literal contents are covered only by data-independence. Model validity rules: std::str::from_utf8 and a hand-written generalized-UTF-8 validator for WTF-8.",
   "DESIGN.md §3 C11", "E5 ops")
CHECKS["C12"] = ("fault_enumeration",
   "C11 histories under a tracking allocator + loom exhaustive interleavings of refcount ops (+ valgrind in thorough)",
   "Three monitors over exhaustively enumerated executions: (1) every C11 history (depth 3 quick / 4 thorough, witnesses depth 3) under a tracking global allocator with red zones, poisoning and quarantine of freed blocks and a per-execution leak check; (2) loom explores all interleavings of the refcount atomics for every assignment of 7 actions to 2, 3 (and 4 in thorough) handles of one shared buffer, with an allocator that demands exactly one free and a loom UnsafeCell shadow that makes the free a write and every harness read a read, so loom's causality checker also validates the Release/Acquire protocol; (3) thorough: valgrind memcheck over the depth-3 histories for out-of-bounds/after-free reads.",
   "loom sees only the refcount atomics; buffer bytes are represented by the shadow cell. Quick tier bounds 3-handle scenarios to 3 preemptions (unbounded in thorough; 4 handles bound 2). SendTendril only sequentially.",
   "DESIGN.md §3 C12", "E5 ops + E6 loomjob")
CHECKS["C01"] = ("model_checking",
   "explicit-state product search of the real tokenizer x reference tokenizer (R-tok) over a lexeme alphabet, plus exhaustive bounded continuations and SIMD window sweep",
   "Job 1: breadth-first search where a state is the lexeme history; each transition feeds history+lexeme chunk-per-lexeme to the real Tokenizer and compares the delivered tokens with R-tok (independent transliteration of the WHATWG tokenizer) under two closers (EOF; a universal closer that flushes every token buffer); states are merged by (abstract hook dump of the implementation, R-tok control state). The bound of job 1 is a count of product states, not a clock, so the work is the same on every machine. Quick: the first 64 000 states in BFS order of each of 3 start configurations (every state at depth < 13-16 expanded with every lexeme, 7.6e6 transitions); thorough: those 3 principal configurations {Data; RCDATA after t; script data after script} run to a closed frontier (2.2e5-3.7e5 states, 1.3e7-2.2e7 transitions each, depth 29-36) and the other 45 start-state x last-start-tag x CDATA configurations to 128 000 states each. Job 2: from the shortest witness of every control state all lexeme strings of length <=2 (3 in thorough) in one chunk. Job 3: data-state strings of 15..34 (50) characters with up to two special items at every pair of positions (SIMD stride/mask/tail).",
   "Alphabet: 59 lexemes, one per character class any spec state distinguishes; other characters assumed to behave like their class. Buffer abstraction argued in DESIGN.md C01. R-tok and python's html.entities table are the trusted base. Parse errors not compared. Quick tier is capped by max_states (exhaustive=false); thorough closes the 3 principal configurations and caps the other 45 (so it also reports exhaustive=false, with closed=true per closed configuration).",
   "DESIGN.md §3 C01", "E1 tok")
CHECKS["C09"] = ("model_checking",
   "same product search as C01 with the line-number oracle (R-tok records characters consumed at each emission)",
   "Every execution of the C01 jobs (LF, CR and CRLF are alphabet members, so a line break is taken in every reachable tokenizer state, in every chunk position) is checked against the line R-tok derives from the number of characters the spec algorithm has consumed at emission: exact for tags, comments, doctypes and EOF; for a character piece the line of the spec position of its last character with one character of look-ahead tolerance; never decreasing.",
   "Same alphabet/abstraction/trusted base as C01. Forwarding through set_current_line is checked by the tree-level checks. Chunk independence of the numbers is C03.",
   "DESIGN.md §3 C09", "E1 tok")
E2NOTE = "Sigma_tree = 168 lexemes, one per rule-equivalence class of tag names (incl. select family, foreign content, template, frameset, ruby, meta); names outside the classes are assumed to behave like x/span. Jobs: J0 all lexeme strings from the empty document (depth 3 quick / 4 thorough, scripting on/off, +srcdoc/quirks/shadow in thorough), J1 from 46 insertion-mode witnesses (depth 2/3), J2 nine themed sub-alphabets (depth 5/7), J3 35 fragment contexts (depth 2/3); one chunk per lexeme so every token boundary is a suspension point. State key = tokenizer dump + tree-builder dump (handles as model node ids) + model DOM."
CHECKS["C04"] = ("fault_enumeration",
   "every execution of the explicit-state tree search + tree-builder state invariants + option lattice + scale grid in child processes",
   "Every execution of the E2 jobs is a totality test (catch_unwind; feed() must leave the queue empty unless it reports a suspension; end() returns) and the tree-builder hook dump is checked at every suspension point for the cross-module invariants the panics depend on (orig_mode set iff Text/InTableText, template_modes length = open templates, open_elems[0] is html, pending_table_text empty outside InTableText, only elements on the stacks). Plus all 64 option vectors x all lexeme strings of length <=2 in one chunk and per-lexeme chunks, and a scale grid (16 nesting/length shapes x n up to 10^4 / 3*10^4, HTML document + fragment + XML, parse + serialize + drop) in child processes so stack overflow or abort is observable. The token-level jobs (C01/C03) enforce exactly one EOF, last.",
   E2NOTE + " 'No hang' is decided by a 300 s watchdog per scale point; allocation failure out of scope.",
   "DESIGN.md §3 C04", "E2 tree")
CHECKS["C05"] = ("model_checking",
   "explicit-state search over the real tokenizer+tree builder with a contract monitor on every TreeSink call",
   "The monitored model sink validates every call the tree builder makes, in every execution of the E2 jobs: element-only operations receive elements created by this sink (template for get_template_contents, option for the selectedcontent hook, form-associated element + form for associate_with_form, script for mark_script_already_started), appended nodes are parentless, no node goes under itself or a descendant, the reference sibling of insert-before has a parent and is not text, at most one doctype and before any element, no attribute list with two equal qualified names.",
   E2NOTE + " XML tree builder calls go through the same monitor in the C16 jobs.",
   "DESIGN.md §3 C05", "E2 tree")
CHECKS["C06"] = ("model_checking",
   "explicit-state search; skeleton predicate evaluated on the final DOM of every document-parse execution",
   "After end() of every execution of the document-parse E2 jobs the model DOM must have: at most one doctype preceded only by comments, exactly one element child html whose element children are head then body, or head then frameset [noframes]; no adjacent text siblings, no empty text, no text under the document, only whitespace text under html, children only under elements/fragments, consistent parent links.",
   E2NOTE + " Other chunkings of the same inputs are C03's job.",
   "DESIGN.md §3 C06", "E2 tree")
CHECKS["C18"] = ("fault_enumeration",
   "explicit-state search with a simulated collector at every suspension point + exhaustive single script-detach deviations",
   "At every suspension point (chunk boundary after every lexeme, script pause, encoding indicator) of every execution the harness calls trace_handles, computes the closure of the traced nodes under parent/child/template-contents/host links in the model DOM and marks every other node as collected; any later sink call that mentions a collected node is a violation. Deviation family: at one suspension point a script detaches one attached element (every element, every suspension point, of every mode witness followed by every lexeme, 1.4e5 runs quick), which is exactly the situation the WARNING in the source is about.",
   E2NOTE + " Detach deviations bounded to one per run.",
   "DESIGN.md §3 C18", "E2 tree")
CHECKS["C20"] = ("model_checking",
   "explicit-state search with every sink call teed into the real RcDom and compared with the abstract DOM",
   "Every TreeSink call of every E2 execution (full alphabet incl. select/selectedcontent, template, foster parenting, adoption agency) is applied to both the abstract DOM and a real RcDom; after each execution the trees must be equal (kinds, names, prefixes, attributes after add_attrs_if_missing, text merging, order, template contents, cloned option content), every RcDom parent link must name exactly the node whose child list contains it (also for detached subtrees), and SerializableHandle::serialize must visit each node once in document order.",
   E2NOTE + " Direct (non-parser) operation sequences are not yet explored.",
   "DESIGN.md §3 C20", "E2 tree")
CHECKS["C14"] = ("exploration",
   "exhaustive sweep of the finite reference space against R-tok + python's entity table",
   "All 2231 names x {exact, last character dropped} x 16 followers x {data, RCDATA, attribute dq/sq/uq}, each unchunked and cut at every position inside the reference; audit of web_atoms::NAMED_ENTITIES against the table (values, prefix entries, nothing extra); every numeric value 0..=0x110000 as decimal, #x lower, #X upper, #x upper, with and without ';' (all cuts and all contexts in thorough); overflow digit counts up to 22; non-references.",
   "Expected values from R-tok's character-reference states over python's html.entities.html5 (independent copy of the WHATWG table).",
   "DESIGN.md §3 C14", "E4 sweep")
E3NOTE = "Corpus: shortest witness of every tokenizer control state (4 start configurations) x every lexeme x 3 closers (1.7e5 token-level inputs), all pairs of tree lexemes + every insertion-mode witness x lexeme (3.6e4 tree-level inputs), hand-listed look-ahead stress strings. Schedules: <=2 cuts quick (all 2^(n-1) chunkings for n<=7), <=3 cuts thorough (all chunkings n<=12), one empty feed at every position."
CHECKS["C03"] = ("fault_enumeration",
   "deviation-bounded exhaustive schedule enumeration (chunk cuts, empty feeds, script pauses with injected text) against the one-piece run",
   "For every corpus input, every schedule inside the bound is executed on the real tokenizer (token level, recording sink) and on the real parser (tree level) and compared with the one-piece run: canonical token stream, tokenizer parse errors with their position, every token's line (character run: line delivered with its last piece), non-Done feed results, final tree and quirks mode. Script pauses: every (pause, injected string from x, <b>, LF, &am, U+FEFF, </script>, <script>y</script>) pair under every <=1/2-cut chunking must equal the one-piece run of the source with the text spliced in after the script end tag; at every Script return the tokenizer is in the data state and the unread queue is exactly the unconsumed suffix.",
   E3NOTE + " Differential oracle (no model). Tree-builder error reports are not compared (they are per character-token piece by design).",
   "DESIGN.md §3 C03", "E3 sched")
CHECKS["C08"] = ("fault_enumeration",
   "C03 corpus x schedules x option lattice, differential against the default-options run under the same schedule",
   "Every option vector (tokenizer exact_errors x discard_bom; tree level tokenizer/tree-builder exact_errors x drop_doctype x discard_bom; profile on an exhaustive slice in a child process with stdout closed) is compared with the all-default run under the same schedule: token stream minus ParseError tokens, lines of non-character tokens, final tree, quirks mode, encoding indicators. Permitted differences only: one leading U+FEFF that is the first character of the stream (discard_bom), the doctype child (drop_doctype). SIMD window strings (15..48 x's with one special character at every position) compare the scalar path, forced by exact_errors, with the SIMD path.",
   E3NOTE + " <=1 cut quick / <=2 thorough for the option lattice. xml5ever options are covered by C15.",
   "DESIGN.md §3 C08", "E3 sched")
CHECKS["C15"] = ("fault_enumeration",
   "deviation-bounded schedule x option enumeration on xml5ever against the one-chunk default run + metamorphic line-break / NUL variants",
   "Corpus: shortest witness of every xml tokenizer control state x every lexeme of a 41-symbol alphabet x 3 closers, plus hand-listed strings around character references, CDATA, PI, DOCTYPE. Every schedule with <=2 cuts (all chunkings up to 6 chars; <=3 / 11 thorough) x {default, exact_errors, discard_bom=false}: token stream and model-DOM tree equal to the one-chunk default run. Absolute rules on every baseline: no U+000D and no U+0000 delivered anywhere. Metamorphic: replacing every LF by CR or CRLF, and every NUL by U+FFFD, must not change the tree (so a line break next to a character reference is neither lost nor doubled). U+FEFF dropped only as the first character of the stream.",
   "No XML5 reference model (the property is differential). Alphabet-bounded.",
   "DESIGN.md §3 C15", "xml + E3")
CHECKS["C10"] = ("exploration",
   "exhaustive sweep of byte strings over boundary alphabets x all chunkings against whole-input lossy decodes",
   "Utf8LossyDecoder: every byte string of length <=5 (6 thorough) over a 17-byte alphabet covering every lead/continuation class of the UTF-8 table, under all 2^(n-1) chunkings plus an empty chunk at every position of every 2-chunk split: concatenated output == String::from_utf8_lossy, error count == number of U+FFFD, every delivered tendril valid UTF-8. from_utf8(): parse tree (html5ever and xml5ever, model sink) of every byte string <=4 (5) over a 12-byte markup alphabet under all chunkings == tree of the lossy string, with one sink error per replacement. LossyDecoder: all 39 non-UTF-8 encoding_rs encodings over per-family alphabets (ASCII, lead, trail, invalid trail, ESC sequences, surrogate halves, BOM prefixes) up to length 4 (5), all chunkings, == Encoding::decode one-shot, including everything still pending at end of stream.",
   "Trusted base: std's from_utf8_lossy and encoding_rs's one-shot decode. Byte space is alphabet-bounded (3-17 bytes per family).",
   "DESIGN.md §3 C10", "E4 sweep")
CHECKS["C07"] = ("exploration",
   "exhaustive enumeration of small trees x all short strings through serialize -> parse_fragment, plus inner/outer and spec-serialization comparison on parsed trees",
   "(a) 8 tree shapes of ordinary elements (div, span, section, x-y; attributes id, data-x; text children) built directly through TreeSink calls on RcDom, with every text and attribute value ranging over all strings of length <=3 (4 thorough) over 22 symbols (& < > \" ' NBSP U+00A2 U+0080 U+FFFD U+1F600 LF ...) and all pairs of strings of length <=2; serialize(ChildrenOnly) then parse_fragment(div) must reproduce the tree exactly and the output must be valid UTF-8; memchr window sweep (0..40/70 a's with one or two specials at every position). (b) For every element of every parsed tree of a 28k-input corpus (all pairs of tree lexemes followed by special characters, raw-text / RCDATA / foreign elements named like raw-text ones, noscript x scripting flag): IncludeNode output == start tag + ChildrenOnly(Some(name)) output + end tag, and the document serialization equals R-ser, a 60-line transliteration of 'serializing HTML fragments'.",
   "String space bounded by alphabet and length; element vocabulary fixed by the property. R-ser follows html5ever in escaping < and > in attribute mode.",
   "DESIGN.md §3 C07", "E4 sweep")
CHECKS["C19"] = ("model_checking",
   "exhaustive enumeration of meta variants x insertion modes x chunkings, and of content-attribute strings, against a monitor + R-meta",
   "The driver records every EncodingIndicator label returned by feed(); independently the monitored sink records every HTML-namespace meta element at the moment it is inserted and computes the expected label from its attributes (charset value, else http-equiv ~ content-type plus R-meta(content), a transliteration of the WHATWG extraction algorithm). The two sequences must be equal, the meta element must already be attached when feed returns, and the final tree must equal the tree of the same input with the triggering attribute names altered (resuming changes nothing). Jobs: 9 meta variants after each of 46 insertion-mode witnesses and each of 168 tree lexemes (document, scripting on/off, followers) and in 35 fragment contexts under every chunking with <=2 (3) cuts; plus all content strings of <=6 (7) lexemes over {charset, CHARSET, chars, SP, TAB, =, quote, apostrophe, ;, x, e-acute} (1.9e6 / 2.1e7 documents).",
   "'Returns a label' is read as 'the extraction algorithm returns a substring' (html5ever delegates the registry lookup to the embedder). Alphabet-bounded.",
   "DESIGN.md §3 C19", "E2 + E4")
XNOTE = "Generator: element names {a, p:a, q:a, script}; declaration subsets (<=2, 3 thorough) of {xmlns=u1, xmlns='', xmlns:p=u1|u2|'', xmlns:q=u1, xmlns:xml=<xml uri>|u9}; attribute subsets (<=3) of {x, p:x, q:x, xml:lang, z:x, p:xmlns, u:y}; every order of the items of a tag (up to 4/5 items); tag forms start..end, empty, short end tag </>, closed by the parent's end tag, unclosed at EOF; two- and three-level nestings with re-declaration / un-declaration; probe elements using every prefix inside and after the element under test (3.6e5 documents quick, 4e6 thorough)."
CHECKS["C16"] = ("exploration",
   "exhaustive generation of namespace shapes parsed by xml5ever into the monitored sink, compared with a lexical-scope resolver (R-ns)",
   "Every generated document is parsed; every element and attribute in the model DOM must carry the namespace R-ns computes by lexical scoping over the generated abstract tree (nearest declaration incl. the element's own tag; default namespace for elements only; xml/xmlns fixed; empty value un-binds; unbound prefix -> no namespace); declarations must be invisible to siblings and following content (probes); built attributes must be an in-order subsequence of the source attributes and one may be missing only if an earlier attribute of the same tag has the same expanded name. The TreeSink contract monitor (C05) is active on every xml run.",
   XNOTE + " xmlns declarations are not attributes for the no-loss clause. The wrapper element closed 'by the parent's end tag' is prefixed so that its end tag names the same element in every inner scope (xml5ever matches end tags by expanded name).",
   "DESIGN.md §3 C16", "xml")
CHECKS["C17"] = ("exploration",
   "exhaustive generation of namespace shapes and value strings through parse -> xml5ever::serialize -> parse",
   "For every document of the C16 generator and for text / attribute values ranging over all strings of length <=2 (3 thorough) over {&amp; &lt; > quote apostrophe a SP LF &#13; e-acute ]]> TAB &#9; &#10; &#133;}, comments and PIs over 10 strings: the RcDom produced by the first parse is serialized and parsed again; the two model-DOM trees must be equal in element and attribute local names, prefixes, namespace URIs, attribute values, text, comments and PIs (doctype ids excluded).",
   XNOTE + " No model: the first parse is the specification of the second.",
   "DESIGN.md §3 C17", "xml")
CHECKS["C02"] = ("model_checking",
   "explicit-state search over the real tokenizer+tree builder compared with a reference transliteration of the WHATWG tree-construction stage (R-tree over R-tok)",
   "Every execution of the E2 jobs restricted to the C02 alphabet (150 lexemes) is parsed a second time by R-tok + R-tree, an independent boring transliteration of the WHATWG tokenizer and tree-construction algorithms (insertion modes, stack/active-formatting list with Noah's ark, adoption agency with the 8/3 limits, foster parenting, reset-insertion-mode, template mode stack, foreign content and integration points, attribute adjustments, quirks table, fragment set-up). After end() the final model DOM (node kinds and order, names, namespaces, attributes with namespace/prefix/value in order, text, comments, doctype, template contents, duplicate-attribute flag) and the quirks mode must be identical. Scripting on/off, iframe-srcdoc, initial quirks and 33 fragment contexts are configurations of the jobs.",
   E2NOTE + " Excluded from the C02 alphabet only (spec text of the 2025 customizable-select parser not verifiable offline): select, option, optgroup, selectedcontent, hr, keygen, isindex, search, dialog, datalist; they stay in the alphabets of C04/C05/C06/C18/C20. R-tree answers attach_declarative_shadow = false like the sink. Parse errors are not compared.",
   "DESIGN.md §3 C02", "E2 tree")
PENDING = {}
def main():
    checks = []
    for pid in ALL:
        if pid not in CHECKS: continue
        level, tech, text, note, ref, eng = CHECKS[pid]
        checks.append({
          "property_id": pid,
          "quick_cmd": f"./check {pid} quick",
          "thorough_cmd": f"./check {pid} thorough",
          "evidence_file": f"/verif/evidence/{pid}.json",
          "replay_cmd_template": f"./check {pid} --replay {{path}}",
          "engine": eng,
          "level_claimed": {"category": level, "text": text, "design_ref": ref},
          "level_note": note,
          "technique": tech,
        })
    na = [{"property_id": p, "reason": PENDING.get(p, "check not built yet in this session (work in progress; see DESIGN.md §3 for the planned model-checking design)")} for p in ALL if p not in CHECKS]
    hooks_commits = []
    hc = "/verif/tools/hook_commits.txt"
    if os.path.exists(hc):
        hooks_commits = [l.strip() for l in open(hc) if l.strip()]
    m = {
      "version": 1,
      "setup_cmd": "cd /verif && ./setup.sh",
      "hooks": {
        "guard": "--cfg html5ever_verif (and --cfg html5ever_verif_loom for the loom build of tendril)",
        "enable": "RUSTFLAGS=--cfg html5ever_verif via /verif/engine/.cargo/config.toml; the engine crate depends on /repo's crates by path, so every ./check rebuilds from /repo's working tree",
        "baseline_off_cmd": "cd /repo && cargo test --workspace --no-fail-fast --offline",
        "source_commits": hooks_commits,
        "add_only": True,
      },
      "engines": [
        {"name": "engine", "path": "/verif/engine", "serves_properties": sorted(CHECKS.keys()), "kind_free_text": "Rust explorers (explicit-state BFS over the real code with reference models, deviation-bounded schedule enumeration, exhaustive finite sweeps), linked against /repo's crates by path"},
      ],
      "checks": checks,
      "not_applicable": na,
      "notes": "All checks are exhaustive enumerations inside stated bounds (no sampling; VERIF_SEED is recorded and ignored). See DESIGN.md. Known findings and repaired defects: known_findings.jsonl (one known finding, C06, identified by mechanism; see DESIGN.md 8.3b). Seeded changes used to test detection: seeded/ (tools/regress_seeds.sh re-runs them all; seeded_rejected/ holds a change that breaks no property as worded). A subject that crashes or does not return on an explored input is reported as a violation of the property being checked (signal mapping in ./check, evaluation watchdog in the engine).",
    }
    json.dump(m, open("/verif/MANIFEST.json", "w"), indent=1)
    print("wrote MANIFEST.json with", len(checks), "checks,", len(na), "not_applicable")
main()
