#!/usr/bin/env python3
"""Regenerates /verif/MANIFEST.json from the table below (single source of truth)."""
import json, sys, os
ALL = ["C%02d" % i for i in range(1, 21)]
# id -> (level, technique, text, note, design_ref, engine)
CHECKS = {
 "C13": ("model_checking",
   "explicit-state product search (real BufferQueue x Vec<String> model), closed graph",
   "Breadth-first search over every interleaving of push_back/push_front/next/peek/pop_front/pop_except_from/eat on the real BufferQueue in lock-step with a Vec<String> partition model; total queued text is capped (8 chars quick, 10 thorough) so the product graph is finite and the frontier closes; every transition compares the return value and the whole buffer partition.",
   "Content alphabet {a,b,A,<,&,U+00E9}; sets {<},{<,&},{}; patterns a,ab,aba,<a,U+00E9,a<,AB in both comparison modes; longer texts are covered only by the data-independence of the code. State key = partition + inline/heap class.",
   "DESIGN.md §3 C13", "E5 ops"),
}
CHECKS["C11"] = ("exploration",
   "stateless exhaustive DFS over operation sequences on the real Tendril vs Vec<u8> model",
   "Every sequence of up to 4 (quick) / 5 (thorough) operations from a ~90-symbol alphabet (make, push bytes/char/tendril, clone, subtendril, pop front/back, char pops, clear, reserve, SendTendril round trip, in-place write, drop) over a pool of 3 tendrils is executed from scratch on the real Tendril next to a Vec<u8> model, for UTF8/Bytes (NonAtomic and Atomic) and WTF8/ASCII/Latin1; plus all suffixes of length 3/4 from 9 representation witnesses (owned+capacity, shared pair, shared+offset, adjacent shared slices, ...). After each sequence every slot must hold the model's bytes, be valid for its format, and checked ops must fail iff the model says so.",
   "No state merging (capacity is invisible). Literal lengths 1/8/9/12/17 straddle the 8-byte inline limit; longer buffers and other literal contents are covered only by data-independence. Model validity rules: std::str::from_utf8 and a hand-written generalized-UTF-8 validator for WTF-8.",
   "DESIGN.md §3 C11", "E5 ops")
CHECKS["C12"] = ("fault_enumeration",
   "C11 histories under a tracking allocator + loom exhaustive interleavings of refcount ops (+ valgrind in thorough)",
   "Three monitors over exhaustively enumerated executions: (1) every C11 history (depth 3 quick / 4 thorough, witnesses depth 3) under a tracking global allocator with red zones, poisoning and quarantine of freed blocks and a per-execution leak check; (2) loom explores all interleavings of the refcount atomics for every assignment of 7 actions to 2, 3 (and 4 in thorough) handles of one shared buffer, with an allocator that demands exactly one free and a loom UnsafeCell shadow that makes the free a write and every harness read a read, so loom's causality checker also validates the Release/Acquire protocol; (3) thorough: valgrind memcheck over the depth-3 histories for out-of-bounds/after-free reads.",
   "loom sees only the refcount atomics; buffer bytes are represented by the shadow cell. Quick tier bounds 3-handle scenarios to 3 preemptions (unbounded in thorough; 4 handles bound 2). SendTendril only sequentially.",
   "DESIGN.md §3 C12", "E5 ops + E6 loomjob")
CHECKS["C01"] = ("model_checking",
   "explicit-state product search of the real tokenizer x reference tokenizer (R-tok) over a lexeme alphabet, plus exhaustive bounded continuations and SIMD window sweep",
   "Job 1: breadth-first search where a state is the lexeme history; each transition feeds history+lexeme chunk-per-lexeme to the real Tokenizer and compares the delivered tokens with R-tok (independent transliteration of the WHATWG tokenizer) under two closers (EOF; a universal closer that flushes every token buffer); states are merged by (abstract hook dump of the implementation, R-tok control state). Quick: 3 start configurations, time-capped (depth ~16, 5e5 states); thorough: all 48 start-state x last-start-tag x CDATA configurations run to a closed frontier (3.5e5 states, 1.9e7 transitions each). Job 2: from the shortest witness of every control state all lexeme strings of length <=2 (3 in thorough) in one chunk. Job 3: data-state strings of 15..34 (50) characters with up to two special items at every pair of positions (SIMD stride/mask/tail).",
   "Alphabet: 53 lexemes, one per character class any spec state distinguishes; other characters assumed to behave like their class. Buffer abstraction argued in DESIGN.md C01. R-tok and python's html.entities table are the trusted base. Parse errors not compared. Quick tier is capped (exhaustive=false), thorough closes.",
   "DESIGN.md §3 C01", "E1 tok")
CHECKS["C09"] = ("model_checking",
   "same product search as C01 with the line-number oracle (R-tok records characters consumed at each emission)",
   "Every execution of the C01 jobs (LF, CR and CRLF are alphabet members, so a line break is taken in every reachable tokenizer state, in every chunk position) is checked against the line R-tok derives from the number of characters the spec algorithm has consumed at emission: exact for tags, comments, doctypes and EOF; for a character piece the line of the spec position of its last character with one character of look-ahead tolerance; never decreasing.",
   "Same alphabet/abstraction/trusted base as C01. Forwarding through set_current_line is checked by the tree-level checks. Chunk independence of the numbers is C03.",
   "DESIGN.md §3 C09", "E1 tok")
PENDING = {}
def main():
    checks = []
    for pid in ALL:
        if pid not in CHECKS: continue
        level, tech, text, note, ref, eng = CHECKS[pid]
        checks.append({
          "property_id": pid,
          "quick_cmd": f"./check {pid} quick",
          "thorough_cmd": f"./check {pid} thorough",
          "evidence_file": f"/verif/evidence/{pid}.json",
          "replay_cmd_template": f"./check {pid} --replay {{path}}",
          "engine": eng,
          "level_claimed": {"category": level, "text": text, "design_ref": ref},
          "level_note": note,
          "technique": tech,
        })
    na = [{"property_id": p, "reason": PENDING.get(p, "check not built yet in this session (work in progress; see DESIGN.md §3 for the planned model-checking design)")} for p in ALL if p not in CHECKS]
    hooks_commits = []
    hc = "/verif/tools/hook_commits.txt"
    if os.path.exists(hc):
        hooks_commits = [l.strip() for l in open(hc) if l.strip()]
    m = {
      "version": 1,
      "setup_cmd": "cd /verif && ./setup.sh",
      "hooks": {
        "guard": "--cfg html5ever_verif (and --cfg html5ever_verif_loom for the loom build of tendril)",
        "enable": "RUSTFLAGS=--cfg html5ever_verif via /verif/engine/.cargo/config.toml; the engine crate depends on /repo's crates by path, so every ./check rebuilds from /repo's working tree",
        "baseline_off_cmd": "cd /repo && cargo test --workspace --no-fail-fast --offline",
        "source_commits": hooks_commits,
        "add_only": True,
      },
      "engines": [
        {"name": "engine", "path": "/verif/engine", "serves_properties": sorted(CHECKS.keys()), "kind_free_text": "Rust explorers (explicit-state BFS over the real code with reference models, deviation-bounded schedule enumeration, exhaustive finite sweeps), linked against /repo's crates by path"},
      ],
      "checks": checks,
      "not_applicable": na,
      "notes": "All checks are exhaustive enumerations inside stated bounds (no sampling; VERIF_SEED is recorded and ignored). See DESIGN.md.",
    }
    json.dump(m, open("/verif/MANIFEST.json", "w"), indent=1)
    print("wrote MANIFEST.json with", len(checks), "checks,", len(na), "not_applicable")
main()
