#!/bin/bash
# usage: run_seed.sh <seed-dir under /verif/seeded> <prop> [more props...]
# applies seeded/<id>/patch.diff to /repo, runs the quick check(s), restores /repo
d=/verif/seeded/$1; shift
[ -f $d/patch.diff ] || { echo "no patch in $d"; exit 2; }
[ -z "$(git -C /repo status --porcelain)" ] || { echo "/repo not clean"; exit 2; }
git -C /repo apply $d/patch.diff || { echo "patch does not apply"; exit 2; }
for p in "$@"; do
  out=$(cd /verif && ./check $p quick 2>&1); rc=$?
  nv=$(echo "$out" | grep -c "^VIOLATION")
  first=$(echo "$out" | grep -A1 "^VIOLATION" | head -2 | tr '\n' ' ' | cut -c1-400)
  echo "$p exit=$rc violations_reported=$nv :: $first"
done
git -C /repo checkout -- .
# witnesses written while the seed was applied are not findings about the real tree
rm -rf /verif/replays/*
