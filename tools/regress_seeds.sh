#!/bin/bash
# run every stored seed against the quick check of the property its meta.json says detected it; prints misses
# usage: tools/regress_seeds.sh [seed-name-regex]   (/repo must be clean; no other check may run meanwhile)
cd /verif || exit 2
pat="${1:-.}"
miss=0; n=0
for d in $(ls seeded | grep -E "$pat"); do
  props=$(python3 - "$d" <<'P'
import json,sys,re
m=json.load(open(f"/verif/seeded/{sys.argv[1]}/meta.json"))
det=m.get("detection","")
ps=re.findall(r"\b(C\d\d)(?: \+ (C\d\d))? quick", det)
out=[]
for a,b in ps:
    out.append(a)
    if b: out.append(b)
if not out: out=[m["breaks_property"]]
# the first property named with "quick" is the one that detected it
print(out[0])
P
)
  r=$(tools/run_seed.sh $d $props 2>&1 | tail -1)
  n=$((n+1))
  if echo "$r" | grep -q "exit=1"; then echo "ok   $d $props"; else echo "MISS $d $props :: $r"; miss=$((miss+1)); fi
done
echo "regression: $n seeds, $miss missed"
