#!/bin/bash
# Build the framework offline from files on disk only.
set -e
export CARGO_NET_OFFLINE=true
cd /verif/engine
cp /repo/Cargo.lock Cargo.lock 2>/dev/null || true
cargo build --release --offline
cd /verif/loomjob
cp /repo/Cargo.lock Cargo.lock 2>/dev/null || true
cargo build --release --offline
