#!/bin/bash
# Build the framework offline from files on disk only.
set -e
export CARGO_NET_OFFLINE=true
cd /verif/engine
cp /repo/Cargo.lock Cargo.lock 2>/dev/null || true
cargo build --release --offline
cd /verif/loomjob
cp /repo/Cargo.lock Cargo.lock 2>/dev/null || true
cargo build --release --offline
# independent copy of the WHATWG named character reference table (python stdlib)
cd /verif && mkdir -p gen && python3 - <<'PY' || true
import html.entities, json
d = html.entities.html5
assert len(d) == 2231
json.dump({k: [ord(c) for c in v] for k, v in d.items()}, open('/verif/gen/entities.json', 'w'))
PY
