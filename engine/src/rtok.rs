//! R-tok: reference transliteration of the WHATWG HTML tokenization algorithm
//! (https://html.spec.whatwg.org/multipage/parsing.html#tokenization), one arm
//! per spec state, char-by-char over the newline-normalised input. No fast
//! paths, no chunks. Parse errors are not modelled (not part of the property).
//!
//! The machine can run without a known end of input: when a state needs
//! look-ahead that is not available yet it *suspends*; `ctl_key` then
//! describes the control state (used as the reference half of product keys).
use std::collections::HashMap;
use std::sync::OnceLock;

#[derive(Clone, Debug, PartialEq, Eq, Hash)]
pub enum RToken {
    Doctype {
        name: Option<String>,
        public: Option<String>,
        system: Option<String>,
        force_quirks: bool,
    },
    Tag {
        end: bool,
        name: String,
        attrs: Vec<(String, String)>,
        self_closing: bool,
        dup: bool,
    },
    Comment(String),
    Char(char),
    Eof,
}

#[derive(Clone, Debug)]
pub struct Emitted {
    pub tok: RToken,
    /// number of (normalised) input characters consumed when the token was
    /// emitted; a character about to be reconsumed counts as consumed
    pub pos: usize,
}

#[derive(Clone, Copy, Debug, PartialEq, Eq, Hash)]
pub enum S {
    Data,
    Rcdata,
    Rawtext,
    ScriptData,
    Plaintext,
    TagOpen,
    EndTagOpen,
    TagName,
    RcdataLt,
    RcdataEndTagOpen,
    RcdataEndTagName,
    RawtextLt,
    RawtextEndTagOpen,
    RawtextEndTagName,
    ScriptLt,
    ScriptEndTagOpen,
    ScriptEndTagName,
    ScriptEscapeStart,
    ScriptEscapeStartDash,
    ScriptEscaped,
    ScriptEscapedDash,
    ScriptEscapedDashDash,
    ScriptEscapedLt,
    ScriptEscapedEndTagOpen,
    ScriptEscapedEndTagName,
    ScriptDoubleEscapeStart,
    ScriptDoubleEscaped,
    ScriptDoubleEscapedDash,
    ScriptDoubleEscapedDashDash,
    ScriptDoubleEscapedLt,
    ScriptDoubleEscapeEnd,
    BeforeAttrName,
    AttrName,
    AfterAttrName,
    BeforeAttrValue,
    AttrValueDq,
    AttrValueSq,
    AttrValueUq,
    AfterAttrValueQuoted,
    SelfClosingStartTag,
    BogusComment,
    MarkupDeclarationOpen,
    CommentStart,
    CommentStartDash,
    Comment,
    CommentLt,
    CommentLtBang,
    CommentLtBangDash,
    CommentLtBangDashDash,
    CommentEndDash,
    CommentEnd,
    CommentEndBang,
    Doctype,
    BeforeDoctypeName,
    DoctypeName,
    AfterDoctypeName,
    AfterDoctypePublicKeyword,
    BeforeDoctypePublicId,
    DoctypePublicIdDq,
    DoctypePublicIdSq,
    AfterDoctypePublicId,
    BetweenDoctypePublicAndSystemIds,
    AfterDoctypeSystemKeyword,
    BeforeDoctypeSystemId,
    DoctypeSystemIdDq,
    DoctypeSystemIdSq,
    AfterDoctypeSystemId,
    BogusDoctype,
    CdataSection,
    CdataSectionBracket,
    CdataSectionEnd,
    CharRef,
    NamedCharRef,
    AmbiguousAmpersand,
    NumericCharRef,
    HexCharRefStart,
    DecCharRefStart,
    HexCharRef,
    DecCharRef,
    NumericCharRefEnd,
}

pub struct Entities {
    pub map: HashMap<String, Vec<u32>>,
    pub prefixes: std::collections::HashSet<String>,
    pub max_len: usize,
}

pub fn entities() -> &'static Entities {
    static E: OnceLock<Entities> = OnceLock::new();
    E.get_or_init(|| {
        let path = "/verif/gen/entities.json";
        let s = std::fs::read_to_string(path)
            .unwrap_or_else(|e| crate::common::machinery(&format!("{path}: {e} (run ./setup.sh)")));
        let v: serde_json::Value = serde_json::from_str(&s).unwrap();
        let mut map = HashMap::new();
        let mut prefixes = std::collections::HashSet::new();
        let mut max_len = 0;
        for (k, cps) in v.as_object().unwrap() {
            let cps: Vec<u32> = cps.as_array().unwrap().iter().map(|x| x.as_u64().unwrap() as u32).collect();
            max_len = max_len.max(k.chars().count());
            for i in 1..=k.len() {
                prefixes.insert(k[..i].to_string());
            }
            map.insert(k.clone(), cps);
        }
        if map.len() != 2231 {
            crate::common::machinery("entity table does not have 2231 entries");
        }
        Entities { map, prefixes, max_len }
    })
}

/// CR LF -> LF, CR -> LF
pub fn normalize(s: &str) -> Vec<char> {
    let mut out = Vec::with_capacity(s.len());
    let mut it = s.chars().peekable();
    while let Some(c) = it.next() {
        if c == '\r' {
            if it.peek() == Some(&'\n') {
                it.next();
            }
            out.push('\n');
        } else {
            out.push(c);
        }
    }
    out
}

#[derive(Clone, Copy, Debug, PartialEq, Eq, Hash)]
pub enum Switch {
    Rcdata,
    Rawtext,
    ScriptData,
    Plaintext,
}

pub struct Cfg<'a> {
    pub start: S,
    pub last_start_tag: Option<String>,
    /// "adjusted current node is not in the HTML namespace" (shared with the tree stage)
    pub cdata_allowed: std::rc::Rc<std::cell::Cell<bool>>,
    /// what the sink answers to a start tag (None = continue)
    pub switch: fn(&str) -> Option<Switch>,
    pub _m: std::marker::PhantomData<&'a ()>,
}

fn ws(c: char) -> bool {
    matches!(c, '\t' | '\n' | '\x0C' | ' ')
}

pub struct RTok<'a> {
    pub input: Vec<char>,
    pub pos: usize,
    /// true once the caller has declared that no more input follows
    pub eof: bool,
    pub state: S,
    pub ret: S,
    pub temp: String,
    pub out: Vec<Emitted>,
    pub last_start_tag: Option<String>,
    // current tag
    pub tag_end: bool,
    pub tag_name: String,
    pub tag_attrs: Vec<(String, String)>,
    pub tag_self_closing: bool,
    pub tag_dup: bool,
    pub attr_active: bool,
    pub attr_name: String,
    pub attr_value: String,
    pub comment: String,
    pub dt_name: Option<String>,
    pub dt_public: Option<String>,
    pub dt_system: Option<String>,
    pub dt_fq: bool,
    pub code: u32,
    pub code_overflow: bool,
    pub suspended: bool,
    pub done: bool,
    cfg: Cfg<'a>,
}

enum Next {
    Char(char),
    Eof,
    Suspend,
}

impl<'a> RTok<'a> {
    pub fn new(cfg: Cfg<'a>) -> RTok<'a> {
        RTok {
            input: vec![],
            pos: 0,
            eof: false,
            state: cfg.start,
            ret: S::Data,
            temp: String::new(),
            out: vec![],
            last_start_tag: cfg.last_start_tag.clone(),
            tag_end: false,
            tag_name: String::new(),
            tag_attrs: vec![],
            tag_self_closing: false,
            tag_dup: false,
            attr_active: false,
            attr_name: String::new(),
            attr_value: String::new(),
            comment: String::new(),
            dt_name: None,
            dt_public: None,
            dt_system: None,
            dt_fq: false,
            code: 0,
            code_overflow: false,
            suspended: false,
            done: false,
            cfg,
        }
    }

    /// Tokenize `s` completely (with EOF).
    pub fn run_all(cfg: Cfg<'a>, s: &str) -> Vec<Emitted> {
        let mut t = RTok::new(cfg);
        t.input = normalize(s);
        t.eof = true;
        t.run();
        t.out
    }

    /// Tokenize without a known end; stops (suspended) when more input is needed.
    pub fn run_partial(cfg: Cfg<'a>, s: &str) -> RTok<'a> {
        let mut t = RTok::new(cfg);
        // a trailing CR cannot be normalised yet; keep it pending
        t.input = normalize(s);
        t.run();
        t
    }

    pub fn run(&mut self) {
        self.suspended = false;
        while !self.done && !self.suspended {
            self.step();
        }
    }

    fn next(&mut self) -> Next {
        if self.pos < self.input.len() {
            let c = self.input[self.pos];
            self.pos += 1;
            Next::Char(c)
        } else if self.eof {
            // EOF is "consumed" without advancing
            Next::Eof
        } else {
            self.suspended = true;
            Next::Suspend
        }
    }
    fn reconsume(&mut self, c: Option<char>, s: S) {
        if c.is_some() {
            self.pos -= 1;
        }
        self.state = s;
    }
    fn emit(&mut self, tok: RToken) {
        self.out.push(Emitted { tok, pos: self.pos });
    }
    fn emit_char(&mut self, c: char) {
        self.emit(RToken::Char(c));
    }
    fn emit_eof(&mut self) {
        self.emit(RToken::Eof);
        self.done = true;
    }
    fn new_tag(&mut self, end: bool) {
        self.tag_end = end;
        self.tag_name.clear();
        self.tag_attrs.clear();
        self.tag_self_closing = false;
        self.tag_dup = false;
        self.attr_active = false;
        self.attr_name.clear();
        self.attr_value.clear();
    }
    fn start_attr(&mut self) {
        self.finish_attr();
        self.attr_active = true;
        self.attr_name.clear();
        self.attr_value.clear();
    }
    /// "when the user agent leaves the attribute name state ... if there is
    /// already an attribute on the token with the exact same name, then this
    /// is a duplicate-attribute parse error and the new attribute must be
    /// removed from the token" -- applied when the attribute is complete.
    fn finish_attr(&mut self) {
        if !self.attr_active {
            return;
        }
        self.attr_active = false;
        if self.tag_attrs.iter().any(|(n, _)| *n == self.attr_name) {
            self.tag_dup = true;
        } else {
            self.tag_attrs.push((std::mem::take(&mut self.attr_name), std::mem::take(&mut self.attr_value)));
        }
        self.attr_name.clear();
        self.attr_value.clear();
    }
    fn emit_tag(&mut self) {
        self.finish_attr();
        let name = std::mem::take(&mut self.tag_name);
        let tok = RToken::Tag {
            end: self.tag_end,
            name: name.clone(),
            attrs: std::mem::take(&mut self.tag_attrs),
            self_closing: self.tag_self_closing,
            dup: self.tag_dup,
        };
        self.emit(tok);
        if !self.tag_end {
            self.last_start_tag = Some(name.clone());
            // the tree-construction stage may switch the tokenizer state
            match (self.cfg.switch)(&name) {
                Some(Switch::Rcdata) => self.state = S::Rcdata,
                Some(Switch::Rawtext) => self.state = S::Rawtext,
                Some(Switch::ScriptData) => self.state = S::ScriptData,
                Some(Switch::Plaintext) => self.state = S::Plaintext,
                None => {},
            }
        }
    }
    fn emit_comment(&mut self) {
        let c = std::mem::take(&mut self.comment);
        self.emit(RToken::Comment(c));
    }
    fn new_doctype(&mut self) {
        self.dt_name = None;
        self.dt_public = None;
        self.dt_system = None;
        self.dt_fq = false;
    }
    fn emit_doctype(&mut self) {
        let tok = RToken::Doctype {
            name: self.dt_name.take(),
            public: self.dt_public.take(),
            system: self.dt_system.take(),
            force_quirks: self.dt_fq,
        };
        self.dt_fq = false;
        self.emit(tok);
    }
    fn appropriate_end_tag(&self) -> bool {
        self.tag_end && self.last_start_tag.as_deref() == Some(self.tag_name.as_str())
    }
    fn in_attr(&self) -> bool {
        matches!(self.ret, S::AttrValueDq | S::AttrValueSq | S::AttrValueUq)
    }
    fn flush_char_ref(&mut self) {
        let t = std::mem::take(&mut self.temp);
        if self.in_attr() {
            self.attr_value.push_str(&t);
        } else {
            for c in t.chars() {
                self.emit_char(c);
            }
        }
    }

    /// Does the upcoming input match `kw`? None = the available input is a
    /// proper prefix of it and more input may follow.
    fn match_kw(&self, kw: &str, ci: bool) -> Option<bool> {
        let k: Vec<char> = kw.chars().collect();
        let avail = &self.input[self.pos..];
        for (i, kc) in k.iter().enumerate() {
            match avail.get(i) {
                None => return if self.eof { Some(false) } else { None },
                Some(c) => {
                    let eq = if ci { c.eq_ignore_ascii_case(kc) } else { c == kc };
                    if !eq {
                        return Some(false);
                    }
                },
            }
        }
        Some(true)
    }

    /// look at up to `n` upcoming characters without consuming.
    /// None = cannot decide yet (suspend)
    fn lookahead(&mut self, n: usize) -> Option<Vec<char>> {
        let avail = self.input.len() - self.pos;
        if avail >= n || self.eof {
            Some(self.input[self.pos..self.pos + n.min(avail)].to_vec())
        } else {
            self.suspended = true;
            None
        }
    }

    fn raw_lt(&mut self, text: S, end_open: S) {
        match self.next() {
            Next::Suspend => {},
            Next::Char('/') => {
                self.temp.clear();
                self.state = end_open;
            },
            Next::Char('!') if text == S::ScriptData => {
                self.state = S::ScriptEscapeStart;
                self.emit_char('<');
                self.emit_char('!');
            },
            Next::Char(c) => {
                self.emit_char('<');
                self.reconsume(Some(c), text);
            },
            Next::Eof => {
                self.emit_char('<');
                self.reconsume(None, text);
            },
        }
    }
    fn raw_end_tag_open(&mut self, text: S, name_state: S) {
        match self.next() {
            Next::Suspend => {},
            Next::Char(c) if c.is_ascii_alphabetic() => {
                self.new_tag(true);
                self.reconsume(Some(c), name_state);
            },
            n => {
                self.emit_char('<');
                self.emit_char('/');
                let c = if let Next::Char(c) = n { Some(c) } else { None };
                self.reconsume(c, text);
            },
        }
    }
    fn raw_end_tag_name(&mut self, text: S) {
        let n = self.next();
        let c = match n {
            Next::Suspend => return,
            Next::Char(c) => Some(c),
            Next::Eof => None,
        };
        if let Some(c) = c {
            if self.appropriate_end_tag() {
                if ws(c) {
                    self.state = S::BeforeAttrName;
                    return;
                }
                if c == '/' {
                    self.state = S::SelfClosingStartTag;
                    return;
                }
                if c == '>' {
                    self.state = S::Data;
                    self.emit_tag();
                    return;
                }
            }
            if c.is_ascii_alphabetic() {
                self.tag_name.push(c.to_ascii_lowercase());
                self.temp.push(c);
                return;
            }
        }
        self.emit_char('<');
        self.emit_char('/');
        let t = std::mem::take(&mut self.temp);
        for x in t.chars() {
            self.emit_char(x);
        }
        self.temp = t; // spec does not clear the buffer here
        self.reconsume(c, text);
    }
    fn double_escape(&mut self, if_script: S, otherwise: S, fallback: S) {
        match self.next() {
            Next::Suspend => {},
            Next::Char(c) if ws(c) || c == '/' || c == '>' => {
                self.state = if self.temp == "script" { if_script } else { otherwise };
                self.emit_char(c);
            },
            Next::Char(c) if c.is_ascii_alphabetic() => {
                self.temp.push(c.to_ascii_lowercase());
                self.emit_char(c);
            },
            Next::Char(c) => self.reconsume(Some(c), fallback),
            Next::Eof => self.reconsume(None, fallback),
        }
    }
    fn doctype_id_quoted(&mut self, public: bool, quote: char, after: S) {
        match self.next() {
            Next::Suspend => {},
            Next::Char(c) if c == quote => self.state = after,
            Next::Char('\0') => self.id(public).push('\u{fffd}'),
            Next::Char('>') => {
                self.dt_fq = true;
                self.state = S::Data;
                self.emit_doctype();
            },
            Next::Char(c) => self.id(public).push(c),
            Next::Eof => {
                self.dt_fq = true;
                self.emit_doctype();
                self.emit_eof();
            },
        }
    }
    fn id(&mut self, public: bool) -> &mut String {
        if public {
            self.dt_public.get_or_insert_with(String::new)
        } else {
            self.dt_system.get_or_insert_with(String::new)
        }
    }
    /// shared shape of the four "after keyword / before identifier" states
    fn doctype_before_id(&mut self, public: bool, after_keyword: bool) {
        let (dq, sq, before) = if public {
            (S::DoctypePublicIdDq, S::DoctypePublicIdSq, S::BeforeDoctypePublicId)
        } else {
            (S::DoctypeSystemIdDq, S::DoctypeSystemIdSq, S::BeforeDoctypeSystemId)
        };
        match self.next() {
            Next::Suspend => {},
            Next::Char(c) if ws(c) => {
                if after_keyword {
                    self.state = before;
                }
            },
            Next::Char('"') => {
                *self.id(public) = String::new();
                self.state = dq;
            },
            Next::Char('\'') => {
                *self.id(public) = String::new();
                self.state = sq;
            },
            Next::Char('>') => {
                self.dt_fq = true;
                self.state = S::Data;
                self.emit_doctype();
            },
            Next::Char(c) => {
                self.dt_fq = true;
                self.reconsume(Some(c), S::BogusDoctype);
            },
            Next::Eof => {
                self.dt_fq = true;
                self.emit_doctype();
                self.emit_eof();
            },
        }
    }

    pub fn step(&mut self) {
        use S::*;
        let st = self.state;
        match st {
            Data => match self.next() {
                Next::Suspend => {},
                Next::Char('&') => {
                    self.ret = Data;
                    self.state = CharRef;
                },
                Next::Char('<') => self.state = TagOpen,
                Next::Char(c) => self.emit_char(c), // includes U+0000
                Next::Eof => self.emit_eof(),
            },
            Rcdata => match self.next() {
                Next::Suspend => {},
                Next::Char('&') => {
                    self.ret = Rcdata;
                    self.state = CharRef;
                },
                Next::Char('<') => self.state = RcdataLt,
                Next::Char('\0') => self.emit_char('\u{fffd}'),
                Next::Char(c) => self.emit_char(c),
                Next::Eof => self.emit_eof(),
            },
            Rawtext | ScriptData => match self.next() {
                Next::Suspend => {},
                Next::Char('<') => self.state = if st == Rawtext { RawtextLt } else { ScriptLt },
                Next::Char('\0') => self.emit_char('\u{fffd}'),
                Next::Char(c) => self.emit_char(c),
                Next::Eof => self.emit_eof(),
            },
            Plaintext => match self.next() {
                Next::Suspend => {},
                Next::Char('\0') => self.emit_char('\u{fffd}'),
                Next::Char(c) => self.emit_char(c),
                Next::Eof => self.emit_eof(),
            },
            TagOpen => match self.next() {
                Next::Suspend => {},
                Next::Char('!') => self.state = MarkupDeclarationOpen,
                Next::Char('/') => self.state = EndTagOpen,
                Next::Char(c) if c.is_ascii_alphabetic() => {
                    self.new_tag(false);
                    self.reconsume(Some(c), TagName);
                },
                Next::Char('?') => {
                    self.comment.clear();
                    self.reconsume(Some('?'), BogusComment);
                },
                Next::Char(c) => {
                    self.emit_char('<');
                    self.reconsume(Some(c), Data);
                },
                Next::Eof => {
                    self.emit_char('<');
                    self.emit_eof();
                },
            },
            EndTagOpen => match self.next() {
                Next::Suspend => {},
                Next::Char(c) if c.is_ascii_alphabetic() => {
                    self.new_tag(true);
                    self.reconsume(Some(c), TagName);
                },
                Next::Char('>') => self.state = Data,
                Next::Char(c) => {
                    self.comment.clear();
                    self.reconsume(Some(c), BogusComment);
                },
                Next::Eof => {
                    self.emit_char('<');
                    self.emit_char('/');
                    self.emit_eof();
                },
            },
            TagName => match self.next() {
                Next::Suspend => {},
                Next::Char(c) if ws(c) => self.state = BeforeAttrName,
                Next::Char('/') => self.state = SelfClosingStartTag,
                Next::Char('>') => {
                    self.state = Data;
                    self.emit_tag();
                },
                Next::Char('\0') => self.tag_name.push('\u{fffd}'),
                Next::Char(c) => self.tag_name.push(c.to_ascii_lowercase()),
                Next::Eof => self.emit_eof(),
            },
            RcdataLt => self.raw_lt(Rcdata, RcdataEndTagOpen),
            RawtextLt => self.raw_lt(Rawtext, RawtextEndTagOpen),
            ScriptLt => self.raw_lt(ScriptData, ScriptEndTagOpen),
            RcdataEndTagOpen => self.raw_end_tag_open(Rcdata, RcdataEndTagName),
            RawtextEndTagOpen => self.raw_end_tag_open(Rawtext, RawtextEndTagName),
            ScriptEndTagOpen => self.raw_end_tag_open(ScriptData, ScriptEndTagName),
            ScriptEscapedEndTagOpen => self.raw_end_tag_open(ScriptEscaped, ScriptEscapedEndTagName),
            RcdataEndTagName => self.raw_end_tag_name(Rcdata),
            RawtextEndTagName => self.raw_end_tag_name(Rawtext),
            ScriptEndTagName => self.raw_end_tag_name(ScriptData),
            ScriptEscapedEndTagName => self.raw_end_tag_name(ScriptEscaped),
            ScriptEscapeStart | ScriptEscapeStartDash => match self.next() {
                Next::Suspend => {},
                Next::Char('-') => {
                    self.state = if st == ScriptEscapeStart { ScriptEscapeStartDash } else { ScriptEscapedDashDash };
                    self.emit_char('-');
                },
                Next::Char(c) => self.reconsume(Some(c), ScriptData),
                Next::Eof => self.reconsume(None, ScriptData),
            },
            ScriptEscaped => match self.next() {
                Next::Suspend => {},
                Next::Char('-') => {
                    self.state = ScriptEscapedDash;
                    self.emit_char('-');
                },
                Next::Char('<') => self.state = ScriptEscapedLt,
                Next::Char('\0') => self.emit_char('\u{fffd}'),
                Next::Char(c) => self.emit_char(c),
                Next::Eof => self.emit_eof(),
            },
            ScriptEscapedDash => match self.next() {
                Next::Suspend => {},
                Next::Char('-') => {
                    self.state = ScriptEscapedDashDash;
                    self.emit_char('-');
                },
                Next::Char('<') => self.state = ScriptEscapedLt,
                Next::Char('\0') => {
                    self.state = ScriptEscaped;
                    self.emit_char('\u{fffd}');
                },
                Next::Char(c) => {
                    self.state = ScriptEscaped;
                    self.emit_char(c);
                },
                Next::Eof => self.emit_eof(),
            },
            ScriptEscapedDashDash => match self.next() {
                Next::Suspend => {},
                Next::Char('-') => self.emit_char('-'),
                Next::Char('<') => self.state = ScriptEscapedLt,
                Next::Char('>') => {
                    self.state = ScriptData;
                    self.emit_char('>');
                },
                Next::Char('\0') => {
                    self.state = ScriptEscaped;
                    self.emit_char('\u{fffd}');
                },
                Next::Char(c) => {
                    self.state = ScriptEscaped;
                    self.emit_char(c);
                },
                Next::Eof => self.emit_eof(),
            },
            ScriptEscapedLt => match self.next() {
                Next::Suspend => {},
                Next::Char('/') => {
                    self.temp.clear();
                    self.state = ScriptEscapedEndTagOpen;
                },
                Next::Char(c) if c.is_ascii_alphabetic() => {
                    self.temp.clear();
                    self.emit_char('<');
                    self.reconsume(Some(c), ScriptDoubleEscapeStart);
                },
                Next::Char(c) => {
                    self.emit_char('<');
                    self.reconsume(Some(c), ScriptEscaped);
                },
                Next::Eof => {
                    self.emit_char('<');
                    self.reconsume(None, ScriptEscaped);
                },
            },
            ScriptDoubleEscapeStart => self.double_escape(ScriptDoubleEscaped, ScriptEscaped, ScriptEscaped),
            ScriptDoubleEscaped => match self.next() {
                Next::Suspend => {},
                Next::Char('-') => {
                    self.state = ScriptDoubleEscapedDash;
                    self.emit_char('-');
                },
                Next::Char('<') => {
                    self.state = ScriptDoubleEscapedLt;
                    self.emit_char('<');
                },
                Next::Char('\0') => self.emit_char('\u{fffd}'),
                Next::Char(c) => self.emit_char(c),
                Next::Eof => self.emit_eof(),
            },
            ScriptDoubleEscapedDash => match self.next() {
                Next::Suspend => {},
                Next::Char('-') => {
                    self.state = ScriptDoubleEscapedDashDash;
                    self.emit_char('-');
                },
                Next::Char('<') => {
                    self.state = ScriptDoubleEscapedLt;
                    self.emit_char('<');
                },
                Next::Char('\0') => {
                    self.state = ScriptDoubleEscaped;
                    self.emit_char('\u{fffd}');
                },
                Next::Char(c) => {
                    self.state = ScriptDoubleEscaped;
                    self.emit_char(c);
                },
                Next::Eof => self.emit_eof(),
            },
            ScriptDoubleEscapedDashDash => match self.next() {
                Next::Suspend => {},
                Next::Char('-') => self.emit_char('-'),
                Next::Char('<') => {
                    self.state = ScriptDoubleEscapedLt;
                    self.emit_char('<');
                },
                Next::Char('>') => {
                    self.state = ScriptData;
                    self.emit_char('>');
                },
                Next::Char('\0') => {
                    self.state = ScriptDoubleEscaped;
                    self.emit_char('\u{fffd}');
                },
                Next::Char(c) => {
                    self.state = ScriptDoubleEscaped;
                    self.emit_char(c);
                },
                Next::Eof => self.emit_eof(),
            },
            ScriptDoubleEscapedLt => match self.next() {
                Next::Suspend => {},
                Next::Char('/') => {
                    self.temp.clear();
                    self.state = ScriptDoubleEscapeEnd;
                    self.emit_char('/');
                },
                Next::Char(c) => self.reconsume(Some(c), ScriptDoubleEscaped),
                Next::Eof => self.reconsume(None, ScriptDoubleEscaped),
            },
            ScriptDoubleEscapeEnd => self.double_escape(ScriptEscaped, ScriptDoubleEscaped, ScriptDoubleEscaped),
            BeforeAttrName => match self.next() {
                Next::Suspend => {},
                Next::Char(c) if ws(c) => {},
                Next::Char(c @ ('/' | '>')) => self.reconsume(Some(c), AfterAttrName),
                Next::Eof => self.reconsume(None, AfterAttrName),
                Next::Char('=') => {
                    self.start_attr();
                    self.attr_name.push('=');
                    self.state = AttrName;
                },
                Next::Char(c) => {
                    self.start_attr();
                    self.reconsume(Some(c), AttrName);
                },
            },
            AttrName => match self.next() {
                Next::Suspend => {},
                Next::Char(c) if ws(c) || c == '/' || c == '>' => self.reconsume(Some(c), AfterAttrName),
                Next::Eof => self.reconsume(None, AfterAttrName),
                Next::Char('=') => self.state = BeforeAttrValue,
                Next::Char('\0') => self.attr_name.push('\u{fffd}'),
                Next::Char(c) => self.attr_name.push(c.to_ascii_lowercase()),
            },
            AfterAttrName => match self.next() {
                Next::Suspend => {},
                Next::Char(c) if ws(c) => {},
                Next::Char('/') => self.state = SelfClosingStartTag,
                Next::Char('=') => self.state = BeforeAttrValue,
                Next::Char('>') => {
                    self.state = Data;
                    self.emit_tag();
                },
                Next::Eof => self.emit_eof(),
                Next::Char(c) => {
                    self.start_attr();
                    self.reconsume(Some(c), AttrName);
                },
            },
            BeforeAttrValue => match self.next() {
                Next::Suspend => {},
                Next::Char(c) if ws(c) => {},
                Next::Char('"') => self.state = AttrValueDq,
                Next::Char('\'') => self.state = AttrValueSq,
                Next::Char('>') => {
                    self.state = Data;
                    self.emit_tag();
                },
                Next::Char(c) => self.reconsume(Some(c), AttrValueUq),
                Next::Eof => self.reconsume(None, AttrValueUq),
            },
            AttrValueDq | AttrValueSq => {
                let q = if st == AttrValueDq { '"' } else { '\'' };
                match self.next() {
                    Next::Suspend => {},
                    Next::Char(c) if c == q => self.state = AfterAttrValueQuoted,
                    Next::Char('&') => {
                        self.ret = st;
                        self.state = CharRef;
                    },
                    Next::Char('\0') => self.attr_value.push('\u{fffd}'),
                    Next::Char(c) => self.attr_value.push(c),
                    Next::Eof => self.emit_eof(),
                }
            },
            AttrValueUq => match self.next() {
                Next::Suspend => {},
                Next::Char(c) if ws(c) => self.state = BeforeAttrName,
                Next::Char('&') => {
                    self.ret = AttrValueUq;
                    self.state = CharRef;
                },
                Next::Char('>') => {
                    self.state = Data;
                    self.emit_tag();
                },
                Next::Char('\0') => self.attr_value.push('\u{fffd}'),
                Next::Char(c) => self.attr_value.push(c),
                Next::Eof => self.emit_eof(),
            },
            AfterAttrValueQuoted => match self.next() {
                Next::Suspend => {},
                Next::Char(c) if ws(c) => self.state = BeforeAttrName,
                Next::Char('/') => self.state = SelfClosingStartTag,
                Next::Char('>') => {
                    self.state = Data;
                    self.emit_tag();
                },
                Next::Eof => self.emit_eof(),
                Next::Char(c) => self.reconsume(Some(c), BeforeAttrName),
            },
            SelfClosingStartTag => match self.next() {
                Next::Suspend => {},
                Next::Char('>') => {
                    self.tag_self_closing = true;
                    self.state = Data;
                    self.emit_tag();
                },
                Next::Eof => self.emit_eof(),
                Next::Char(c) => self.reconsume(Some(c), BeforeAttrName),
            },
            BogusComment => match self.next() {
                Next::Suspend => {},
                Next::Char('>') => {
                    self.state = Data;
                    self.emit_comment();
                },
                Next::Eof => {
                    self.emit_comment();
                    self.emit_eof();
                },
                Next::Char('\0') => self.comment.push('\u{fffd}'),
                Next::Char(c) => self.comment.push(c),
            },
            MarkupDeclarationOpen => {
                let m1 = self.match_kw("--", false);
                if m1 == Some(true) {
                    self.pos += 2;
                    self.comment.clear();
                    self.state = CommentStart;
                    return;
                }
                let m2 = self.match_kw("doctype", true);
                if m2 == Some(true) {
                    self.pos += 7;
                    self.state = Doctype;
                    return;
                }
                let m3 = self.match_kw("[CDATA[", false);
                if m3 == Some(true) {
                    self.pos += 7;
                    if self.cfg.cdata_allowed.get() {
                        self.state = CdataSection;
                    } else {
                        self.comment = "[CDATA[".to_string();
                        self.state = BogusComment;
                    }
                    return;
                }
                if m1.is_none() || m2.is_none() || m3.is_none() {
                    self.suspended = true;
                    return;
                }
                self.comment.clear();
                self.state = BogusComment;
            },
            CommentStart => match self.next() {
                Next::Suspend => {},
                Next::Char('-') => self.state = CommentStartDash,
                Next::Char('>') => {
                    self.state = Data;
                    self.emit_comment();
                },
                Next::Char(c) => self.reconsume(Some(c), Comment),
                Next::Eof => self.reconsume(None, Comment),
            },
            CommentStartDash => match self.next() {
                Next::Suspend => {},
                Next::Char('-') => self.state = CommentEnd,
                Next::Char('>') => {
                    self.state = Data;
                    self.emit_comment();
                },
                Next::Eof => {
                    self.emit_comment();
                    self.emit_eof();
                },
                Next::Char(c) => {
                    self.comment.push('-');
                    self.reconsume(Some(c), Comment);
                },
            },
            Comment => match self.next() {
                Next::Suspend => {},
                Next::Char('<') => {
                    self.comment.push('<');
                    self.state = CommentLt;
                },
                Next::Char('-') => self.state = CommentEndDash,
                Next::Char('\0') => self.comment.push('\u{fffd}'),
                Next::Eof => {
                    self.emit_comment();
                    self.emit_eof();
                },
                Next::Char(c) => self.comment.push(c),
            },
            CommentLt => match self.next() {
                Next::Suspend => {},
                Next::Char('!') => {
                    self.comment.push('!');
                    self.state = CommentLtBang;
                },
                Next::Char('<') => self.comment.push('<'),
                Next::Char(c) => self.reconsume(Some(c), Comment),
                Next::Eof => self.reconsume(None, Comment),
            },
            CommentLtBang => match self.next() {
                Next::Suspend => {},
                Next::Char('-') => self.state = CommentLtBangDash,
                Next::Char(c) => self.reconsume(Some(c), Comment),
                Next::Eof => self.reconsume(None, Comment),
            },
            CommentLtBangDash => match self.next() {
                Next::Suspend => {},
                Next::Char('-') => self.state = CommentLtBangDashDash,
                Next::Char(c) => self.reconsume(Some(c), CommentEndDash),
                Next::Eof => self.reconsume(None, CommentEndDash),
            },
            CommentLtBangDashDash => match self.next() {
                Next::Suspend => {},
                Next::Char(c) => self.reconsume(Some(c), CommentEnd),
                Next::Eof => self.reconsume(None, CommentEnd),
            },
            CommentEndDash => match self.next() {
                Next::Suspend => {},
                Next::Char('-') => self.state = CommentEnd,
                Next::Eof => {
                    self.emit_comment();
                    self.emit_eof();
                },
                Next::Char(c) => {
                    self.comment.push('-');
                    self.reconsume(Some(c), Comment);
                },
            },
            CommentEnd => match self.next() {
                Next::Suspend => {},
                Next::Char('>') => {
                    self.state = Data;
                    self.emit_comment();
                },
                Next::Char('!') => self.state = CommentEndBang,
                Next::Char('-') => self.comment.push('-'),
                Next::Eof => {
                    self.emit_comment();
                    self.emit_eof();
                },
                Next::Char(c) => {
                    self.comment.push_str("--");
                    self.reconsume(Some(c), Comment);
                },
            },
            CommentEndBang => match self.next() {
                Next::Suspend => {},
                Next::Char('-') => {
                    self.comment.push_str("--!");
                    self.state = CommentEndDash;
                },
                Next::Char('>') => {
                    self.state = Data;
                    self.emit_comment();
                },
                Next::Eof => {
                    self.emit_comment();
                    self.emit_eof();
                },
                Next::Char(c) => {
                    self.comment.push_str("--!");
                    self.reconsume(Some(c), Comment);
                },
            },
            Doctype => match self.next() {
                Next::Suspend => {},
                Next::Char(c) if ws(c) => self.state = BeforeDoctypeName,
                Next::Char(c) => self.reconsume(Some(c), BeforeDoctypeName),
                Next::Eof => {
                    self.new_doctype();
                    self.dt_fq = true;
                    self.emit_doctype();
                    self.emit_eof();
                },
            },
            BeforeDoctypeName => match self.next() {
                Next::Suspend => {},
                Next::Char(c) if ws(c) => {},
                Next::Char('\0') => {
                    self.new_doctype();
                    self.dt_name = Some("\u{fffd}".to_string());
                    self.state = DoctypeName;
                },
                Next::Char('>') => {
                    self.new_doctype();
                    self.dt_fq = true;
                    self.state = Data;
                    self.emit_doctype();
                },
                Next::Eof => {
                    self.new_doctype();
                    self.dt_fq = true;
                    self.emit_doctype();
                    self.emit_eof();
                },
                Next::Char(c) => {
                    self.new_doctype();
                    self.dt_name = Some(c.to_ascii_lowercase().to_string());
                    self.state = DoctypeName;
                },
            },
            DoctypeName => match self.next() {
                Next::Suspend => {},
                Next::Char(c) if ws(c) => self.state = AfterDoctypeName,
                Next::Char('>') => {
                    self.state = Data;
                    self.emit_doctype();
                },
                Next::Char('\0') => self.dt_name.get_or_insert_with(String::new).push('\u{fffd}'),
                Next::Eof => {
                    self.dt_fq = true;
                    self.emit_doctype();
                    self.emit_eof();
                },
                Next::Char(c) => self.dt_name.get_or_insert_with(String::new).push(c.to_ascii_lowercase()),
            },
            AfterDoctypeName => {
                // "six characters starting from the current input character"
                let Some(la) = self.lookahead(1) else { return };
                match la.first().copied() {
                    None => {
                        self.dt_fq = true;
                        self.emit_doctype();
                        self.emit_eof();
                    },
                    Some(c) if ws(c) => self.pos += 1,
                    Some('>') => {
                        self.pos += 1;
                        self.state = Data;
                        self.emit_doctype();
                    },
                    Some(_) => {
                        let m1 = self.match_kw("public", true);
                        let m2 = self.match_kw("system", true);
                        if m1 == Some(true) {
                            self.pos += 6;
                            self.state = AfterDoctypePublicKeyword;
                        } else if m2 == Some(true) {
                            self.pos += 6;
                            self.state = AfterDoctypeSystemKeyword;
                        } else if m1.is_none() || m2.is_none() {
                            self.suspended = true;
                        } else {
                            self.dt_fq = true;
                            // consume the current character, then reconsume it
                            self.pos += 1;
                            let c = self.input[self.pos - 1];
                            self.reconsume(Some(c), BogusDoctype);
                        }
                    },
                }
            },
            AfterDoctypePublicKeyword => self.doctype_before_id(true, true),
            BeforeDoctypePublicId => self.doctype_before_id(true, false),
            AfterDoctypeSystemKeyword => self.doctype_before_id(false, true),
            BeforeDoctypeSystemId => self.doctype_before_id(false, false),
            DoctypePublicIdDq => self.doctype_id_quoted(true, '"', AfterDoctypePublicId),
            DoctypePublicIdSq => self.doctype_id_quoted(true, '\'', AfterDoctypePublicId),
            DoctypeSystemIdDq => self.doctype_id_quoted(false, '"', AfterDoctypeSystemId),
            DoctypeSystemIdSq => self.doctype_id_quoted(false, '\'', AfterDoctypeSystemId),
            AfterDoctypePublicId | BetweenDoctypePublicAndSystemIds => match self.next() {
                Next::Suspend => {},
                Next::Char(c) if ws(c) => self.state = BetweenDoctypePublicAndSystemIds,
                Next::Char('>') => {
                    self.state = Data;
                    self.emit_doctype();
                },
                Next::Char('"') => {
                    self.dt_system = Some(String::new());
                    self.state = DoctypeSystemIdDq;
                },
                Next::Char('\'') => {
                    self.dt_system = Some(String::new());
                    self.state = DoctypeSystemIdSq;
                },
                Next::Eof => {
                    self.dt_fq = true;
                    self.emit_doctype();
                    self.emit_eof();
                },
                Next::Char(c) => {
                    self.dt_fq = true;
                    self.reconsume(Some(c), BogusDoctype);
                },
            },
            AfterDoctypeSystemId => match self.next() {
                Next::Suspend => {},
                Next::Char(c) if ws(c) => {},
                Next::Char('>') => {
                    self.state = Data;
                    self.emit_doctype();
                },
                Next::Eof => {
                    self.dt_fq = true;
                    self.emit_doctype();
                    self.emit_eof();
                },
                Next::Char(c) => self.reconsume(Some(c), BogusDoctype), // no force-quirks
            },
            BogusDoctype => match self.next() {
                Next::Suspend => {},
                Next::Char('>') => {
                    self.state = Data;
                    self.emit_doctype();
                },
                Next::Eof => {
                    self.emit_doctype();
                    self.emit_eof();
                },
                Next::Char(_) => {},
            },
            CdataSection => match self.next() {
                Next::Suspend => {},
                Next::Char(']') => self.state = CdataSectionBracket,
                Next::Eof => self.emit_eof(),
                Next::Char(c) => self.emit_char(c),
            },
            CdataSectionBracket => match self.next() {
                Next::Suspend => {},
                Next::Char(']') => self.state = CdataSectionEnd,
                Next::Char(c) => {
                    self.emit_char(']');
                    self.reconsume(Some(c), CdataSection);
                },
                Next::Eof => {
                    self.emit_char(']');
                    self.reconsume(None, CdataSection);
                },
            },
            CdataSectionEnd => match self.next() {
                Next::Suspend => {},
                Next::Char(']') => self.emit_char(']'),
                Next::Char('>') => self.state = Data,
                Next::Char(c) => {
                    self.emit_char(']');
                    self.emit_char(']');
                    self.reconsume(Some(c), CdataSection);
                },
                Next::Eof => {
                    self.emit_char(']');
                    self.emit_char(']');
                    self.reconsume(None, CdataSection);
                },
            },
            CharRef => {
                self.temp = "&".to_string();
                match self.next() {
                    Next::Suspend => {},
                    Next::Char(c) if c.is_ascii_alphanumeric() => self.reconsume(Some(c), NamedCharRef),
                    Next::Char('#') => {
                        self.temp.push('#');
                        self.state = NumericCharRef;
                    },
                    Next::Char(c) => {
                        self.flush_char_ref();
                        let r = self.ret;
                        self.reconsume(Some(c), r);
                    },
                    Next::Eof => {
                        self.flush_char_ref();
                        let r = self.ret;
                        self.reconsume(None, r);
                    },
                }
            },
            NamedCharRef => {
                // consume the maximum number of characters that match an identifier
                let ents = entities();
                let avail = &self.input[self.pos..];
                let mut best: Option<(usize, &Vec<u32>)> = None;
                let mut s = String::new();
                let mut could_extend = true;
                for (i, &c) in avail.iter().enumerate() {
                    s.push(c);
                    if !ents.prefixes.contains(&s) {
                        could_extend = false;
                        break;
                    }
                    if let Some(v) = ents.map.get(&s) {
                        best = Some((i + 1, v));
                    }
                }
                if could_extend && !self.eof {
                    // everything available is a proper prefix of some name (or
                    // nothing is available): a longer match may still come
                    self.suspended = true;
                    return;
                }
                match best {
                    Some((n, cps)) => {
                        let last = avail[n - 1];
                        let nextc = avail.get(n).copied();
                        if nextc.is_none() && !self.eof {
                            // need one more character for the attribute rule
                            self.suspended = true;
                            return;
                        }
                        let cps = cps.clone();
                        for i in 0..n {
                            let c = self.input[self.pos + i];
                            self.temp.push(c);
                        }
                        self.pos += n;
                        if self.in_attr() && last != ';' && matches!(nextc, Some(c) if c == '=' || c.is_ascii_alphanumeric()) {
                            self.flush_char_ref();
                            self.state = self.ret;
                        } else {
                            self.temp = cps.iter().map(|&u| char::from_u32(u).unwrap()).collect();
                            self.flush_char_ref();
                            self.state = self.ret;
                        }
                    },
                    None => {
                        self.flush_char_ref();
                        self.state = AmbiguousAmpersand;
                    },
                }
            },
            AmbiguousAmpersand => match self.next() {
                Next::Suspend => {},
                Next::Char(c) if c.is_ascii_alphanumeric() => {
                    if self.in_attr() {
                        self.attr_value.push(c);
                    } else {
                        self.emit_char(c);
                    }
                },
                Next::Char(c) => {
                    let r = self.ret;
                    self.reconsume(Some(c), r);
                },
                Next::Eof => {
                    let r = self.ret;
                    self.reconsume(None, r);
                },
            },
            NumericCharRef => {
                self.code = 0;
                self.code_overflow = false;
                match self.next() {
                    Next::Suspend => {},
                    Next::Char(c @ ('x' | 'X')) => {
                        self.temp.push(c);
                        self.state = HexCharRefStart;
                    },
                    Next::Char(c) => self.reconsume(Some(c), DecCharRefStart),
                    Next::Eof => self.reconsume(None, DecCharRefStart),
                }
            },
            HexCharRefStart | DecCharRefStart => {
                let hex = st == HexCharRefStart;
                match self.next() {
                    Next::Suspend => {},
                    Next::Char(c) if (hex && c.is_ascii_hexdigit()) || (!hex && c.is_ascii_digit()) => {
                        self.reconsume(Some(c), if hex { HexCharRef } else { DecCharRef })
                    },
                    Next::Char(c) => {
                        self.flush_char_ref();
                        let r = self.ret;
                        self.reconsume(Some(c), r);
                    },
                    Next::Eof => {
                        self.flush_char_ref();
                        let r = self.ret;
                        self.reconsume(None, r);
                    },
                }
            },
            HexCharRef | DecCharRef => {
                let base = if st == HexCharRef { 16 } else { 10 };
                match self.next() {
                    Next::Suspend => {},
                    Next::Char(c) if c.to_digit(base).is_some() => {
                        let d = c.to_digit(base).unwrap();
                        // arbitrary precision is not needed: saturate above the Unicode range
                        if !self.code_overflow {
                            let v = self.code as u64 * base as u64 + d as u64;
                            if v > 0x10FFFF {
                                self.code_overflow = true;
                            } else {
                                self.code = v as u32;
                            }
                        }
                    },
                    Next::Char(';') => self.state = NumericCharRefEnd,
                    Next::Char(c) => self.reconsume(Some(c), NumericCharRefEnd),
                    Next::Eof => self.reconsume(None, NumericCharRefEnd),
                }
            },
            NumericCharRefEnd => {
                let code = self.code;
                let c = if self.code_overflow || code > 0x10FFFF {
                    '\u{fffd}'
                } else if code == 0 {
                    '\u{fffd}'
                } else if (0xD800..=0xDFFF).contains(&code) {
                    '\u{fffd}'
                } else {
                    match c1_table(code) {
                        Some(m) => m,
                        None => char::from_u32(code).unwrap(),
                    }
                };
                self.temp = c.to_string();
                self.flush_char_ref();
                self.state = self.ret;
            },
        }
    }

    /// Descriptor of the control state, for product keys.
    pub fn ctl_key(&self) -> String {
        let pending: String = self.input[self.pos..].iter().collect();
        format!(
            "{:?}|{:?}|p={:?}|ts={}|ae={}|ad={}|aa={}|cc={}",
            self.state,
            if matches!(
                self.state,
                S::CharRef | S::NamedCharRef | S::AmbiguousAmpersand | S::NumericCharRef | S::HexCharRefStart
                    | S::DecCharRefStart | S::HexCharRef | S::DecCharRef | S::NumericCharRefEnd
            ) {
                Some(self.ret)
            } else {
                None
            },
            pending,
            self.temp == "script",
            self.appropriate_end_tag(),
            self.attr_active && self.tag_attrs.iter().any(|(n, _)| *n == self.attr_name),
            self.attr_active,
            if self.code_overflow { 2 } else if self.code == 0 { 0 } else { 1 },
        )
    }
}

pub fn c1_table(code: u32) -> Option<char> {
    let m = match code {
        0x80 => 0x20AC,
        0x82 => 0x201A,
        0x83 => 0x0192,
        0x84 => 0x201E,
        0x85 => 0x2026,
        0x86 => 0x2020,
        0x87 => 0x2021,
        0x88 => 0x02C6,
        0x89 => 0x2030,
        0x8A => 0x0160,
        0x8B => 0x2039,
        0x8C => 0x0152,
        0x8E => 0x017D,
        0x91 => 0x2018,
        0x92 => 0x2019,
        0x93 => 0x201C,
        0x94 => 0x201D,
        0x95 => 0x2022,
        0x96 => 0x2013,
        0x97 => 0x2014,
        0x98 => 0x02DC,
        0x99 => 0x2122,
        0x9A => 0x0161,
        0x9B => 0x203A,
        0x9C => 0x0153,
        0x9E => 0x017E,
        0x9F => 0x0178,
        _ => return None,
    };
    char::from_u32(m)
}
