//! E3: deviation-bounded schedule enumeration. C03 (chunking / pauses /
//! injections vs the one-piece run) and C08 (option lattice vs defaults).
use crate::bfs::*;
use crate::c01::{control_key, lexemes, render as trender, sched_of as tsched};
use crate::common::*;
use crate::e2::{mode_witnesses, sigma_full};
use crate::tokh::*;
use crate::treeh::*;
use rayon::prelude::*;
use serde_json::json;
use std::collections::{BTreeMap, BTreeSet};
use std::sync::atomic::{AtomicU64, Ordering};
use std::sync::Mutex;

/// shortest lexeme history reaching every control state (state x reconsume x ignore_lf x char-ref sub-state)
pub fn control_witnesses(cfg: &TokCfg) -> Vec<String> {
    let lex = lexemes();
    let found: Mutex<BTreeMap<String, Vec<u16>>> = Mutex::new(BTreeMap::new());
    let key = |h: &[u16]| -> Option<String> {
        let o = guarded(|| run_real(cfg, &tsched(&lex, h), &[], false, true)).ok()?;
        let d = o.dump.as_ref()?;
        // a little more than the control key so that buffer-predicate variants get their own witness
        Some(format!(
            "{}|{}|{}|{}|{}",
            control_key(d),
            d.temp_buf == "script",
            d.last_start_tag.as_deref() == Some(d.tag_name.as_str()),
            d.attrs.iter().any(|(n, _)| *n == d.attr_name),
            d.tag_kind
        ))
    };
    let root = key(&[]).unwrap();
    found.lock().unwrap().insert(root.clone(), vec![]);
    let bcfg = BfsCfg { max_depth: 12, max_states: 100_000, max_secs: 300.0 };
    bfs(
        vec![(vec![], digest(&root))],
        lex.len(),
        &bcfg,
        |h, s| {
            let mut nh = h.to_vec();
            nh.push(s);
            match key(&nh) {
                None => Step::Disabled,
                Some(k) => {
                    let d = digest(&k);
                    keep_min_witness(&mut found.lock().unwrap(), k, nh);
                    Step::Next(d)
                },
            }
        },
        |_, _| {},
    );
    let mut v: Vec<String> = found.into_inner().unwrap().values().map(|h| trender(&lex, h)).collect();
    v.sort();
    v.dedup();
    v
}

/// all ways to cut `s` (char boundaries) with at most `max_cuts` cuts; if the
/// string has at most `full_upto` characters, all 2^(n-1) chunkings
pub fn chunkings(s: &str, max_cuts: usize, full_upto: usize) -> Vec<Vec<Feed>> {
    let idx: Vec<usize> = s.char_indices().map(|(i, _)| i).skip(1).collect();
    let n = idx.len();
    let mut out = vec![];
    let make = |cuts: &[usize]| -> Vec<Feed> {
        let mut v = vec![];
        let mut prev = 0;
        for &c in cuts {
            v.push(Feed::Chunk(s[prev..c].to_string()));
            prev = c;
        }
        v.push(Feed::Chunk(s[prev..].to_string()));
        v
    };
    if n + 1 <= full_upto && n <= 16 {
        for mask in 0u32..(1 << n) {
            let cuts: Vec<usize> = (0..n).filter(|i| mask & (1 << i) != 0).map(|i| idx[i]).collect();
            out.push(make(&cuts));
        }
        return out;
    }
    out.push(make(&[]));
    if max_cuts >= 1 {
        for a in 0..n {
            out.push(make(&[idx[a]]));
        }
    }
    if max_cuts >= 2 {
        for a in 0..n {
            for b in a + 1..n {
                out.push(make(&[idx[a], idx[b]]));
            }
        }
    }
    if max_cuts >= 3 {
        for a in 0..n {
            for b in a + 1..n {
                for c in b + 1..n {
                    out.push(make(&[idx[a], idx[b], idx[c]]));
                }
            }
        }
    }
    out
}

/// one empty feed inserted at every position of a schedule
fn with_empty_feeds(s: &[Feed]) -> Vec<Vec<Feed>> {
    (0..=s.len())
        .map(|i| {
            let mut v = s.to_vec();
            v.insert(i, Feed::Empty);
            v
        })
        .collect()
}

pub const STRESS: &[&str] = &[
    "<!DOCTYPE a\r\nPUBLIC 'x'>", "<!DOCTYPE a\rSYSTEM \"y\">", "<!DOCTYPE a \r\n>", "<!\r\n-->", "<!--\r\n-->", "a\r\n<![CDATA[x]]>",
    "\u{feff}a\u{feff}b", "a\u{feff}", "\u{feff}\u{feff}", "&amp;&notin;&notit;&#x41;&#65;", "<a b='&amp=1' c=&amp;d>",
    "<pre>\r\nx</pre>", "<pre>\n\nx", "<textarea>\r\n\r\nx</textarea>", "<listing>\rx", "<script><!--<script>x</script>--></script>y",
    "<title>a</titl></title>b", "<t>&amp</t></t>", "<svg><![CDATA[a]]b]]>c", "<p\r\n\r\nid\r\n=\r\n'x\r\ny'\r\n>", "x\r", "\r", "\r\r\n\n",
    "<a\r", "<!--x-\r", "</\r\n>", "<?\r\n>", "&\r\n", "&#\r\n", "&#x\r\n", "&a\r\n", "<a b=\r\n\"c\">", "<a b\r\n=c>", "xxxxxxxxxxxxxxxx\r\nxxxxxxxxxxxxxxxxx\r",
];

pub struct Stats {
    pub evals: AtomicU64,
    pub inputs: AtomicU64,
    pub outcomes: Mutex<BTreeSet<u128>>,
}

fn tok_signature(o: &Out) -> (Vec<(Item, u64)>, Vec<(String, usize)>, Vec<&'static str>) {
    (
        o.items.clone(),
        o.errors.clone(),
        o.results.iter().cloned().filter(|r| *r != "Done").collect(),
    )
}

/// token level: every schedule of `input` must give the baseline's tokens, errors, lines
fn tok_case(ctx: &Ctx, st: &Stats, cfg: &TokCfg, input: &str, scheds: &[Vec<Feed>], local: &mut BTreeSet<u128>) {
    st.inputs.fetch_add(1, Ordering::Relaxed);
    let base_s = vec![Feed::Chunk(input.to_string())];
    let base = match guarded(|| run_real(cfg, &base_s, &[], true, false)) {
        Ok(b) => b,
        Err(_) => return, // a panic of the one-piece run is C04's business
    };
    let bsig = tok_signature(&base);
    local.insert(digest(&bsig.0));
    for s in scheds {
        st.evals.fetch_add(1, Ordering::Relaxed);
        match guarded(|| run_real(cfg, s, &[], true, false)) {
            Err(p) => {
                ctx.violation("panic-under-chunking", &crate::c01::witness(cfg, s), json!({"panic": p}));
            },
            Ok(o) => {
                if let Some(p) = o.problems.first() {
                    ctx.violation("contract", &crate::c01::witness(cfg, s), json!({"message": p}));
                    continue;
                }
                let sig = tok_signature(&o);
                if sig != bsig {
                    let kind = if sig.0.iter().map(|x| &x.0).ne(bsig.0.iter().map(|x| &x.0)) {
                        "tokens"
                    } else if sig.0 != bsig.0 {
                        "line"
                    } else if sig.1 != bsig.1 {
                        "errors"
                    } else {
                        "results"
                    };
                    ctx.violation(
                        kind,
                        &crate::c01::witness(cfg, s),
                        json!({"one_piece": format!("{:?}", bsig), "chunked": format!("{:?}", sig), "input": input}),
                    );
                }
            },
        }
    }
}

fn tree_signature(o: &TreeOut) -> (String, String, Vec<String>, Vec<String>, Vec<&'static str>) {
    let sink = o.sink.as_ref().unwrap();
    (
        sink.dom.borrow().render_doc(),
        format!("{:?}", sink.quirks.get()),
        // tree-builder errors are reported per character-token piece and are not part of the
        // property (only the tokenizer's parse errors are, compared at token level)
        vec![],
        o.indicators.clone(),
        o.results.iter().cloned().filter(|r| *r != "Done").collect(),
    )
}

fn tree_case(ctx: &Ctx, st: &Stats, cfg: &TreeCfg, input: &str, scheds: &[Vec<Feed>], local: &mut BTreeSet<u128>) {
    st.inputs.fetch_add(1, Ordering::Relaxed);
    let env = Env::default();
    let base = match guarded(|| run_tree(cfg, &[Feed::Chunk(input.to_string())], &env, true)) {
        Ok(b) => b,
        Err(_) => return,
    };
    let bsig = tree_signature(&base);
    local.insert(digest(&bsig.0));
    for s in scheds {
        st.evals.fetch_add(1, Ordering::Relaxed);
        match guarded(|| run_tree(cfg, s, &env, true)) {
            Err(p) => {
                ctx.violation("panic-under-chunking", &crate::e2::witness(cfg, s, &env), json!({"panic": p}));
            },
            Ok(o) => {
                let sig = tree_signature(&o);
                if sig != bsig {
                    let kind = if sig.0 != bsig.0 { "tree" } else { "results" };
                    ctx.violation(kind, &crate::e2::witness(cfg, s, &env), json!({"one_piece": bsig.0, "chunked": sig.0, "errors_one_piece": bsig.2, "errors_chunked": sig.2, "input": input}));
                }
            },
        }
    }
}

const INJECT: &[&str] = &["x", "<b>", "\n", "&am", "\u{feff}", "</script>", "<script>y</script>"];

/// script pauses + injected text == the same text written after the script end tag
fn pause_cases(ctx: &Ctx, st: &Stats, tier: Tier) {
    // (an SVG script end tag does not suspend the parser, so it is not an injection point)
    let bodies = ["<script>a</script>", "<script></script>", "<table><script>a</script>", "<script>a</script><script>b</script>", "<p><script>a</script>"];
    let tails = ["z", "p;z", "\nz", "<i>z", ""];
    let mut cases: Vec<(String, usize, &str, String)> = vec![]; // (source, pause idx, injection, spliced)
    for b in bodies {
        for t in tails {
            let src = format!("{b}{t}");
            let npauses = src.matches("</script>").count();
            for k in 0..npauses {
                for inj in INJECT {
                    // position right after the k-th </script>
                    let mut pos = 0;
                    for _ in 0..=k {
                        pos = src[pos..].find("</script>").unwrap() + pos + "</script>".len();
                    }
                    let spliced = format!("{}{}{}", &src[..pos], inj, &src[pos..]);
                    cases.push((src.clone(), k, inj, spliced));
                }
            }
        }
    }
    let max_cuts = tier.pick(1, 2);
    cases.par_iter().for_each(|(src, k, inj, spliced)| {
        // token level (sink answers Script on </script>)
        let tcfg = TokCfg { script_pause: true, ..Default::default() };
        let want = guarded(|| run_real(&tcfg, &[Feed::Chunk(spliced.clone())], &[], true, false));
        let tcfg_env = [Injection { at_pause: *k, text: inj.to_string() }];
        for s in chunkings(src, max_cuts, 0) {
            st.evals.fetch_add(1, Ordering::Relaxed);
            let got = guarded(|| run_real(&tcfg, &s, &tcfg_env, true, false));
            if let (Ok(w), Ok(g)) = (&want, &got) {
                // injected script end tags add pauses; compare tokens/errors only
                let (a, b) = (tok_signature(w), tok_signature(g));
                let lines_comparable = !inj.contains('\n');
                let items_eq = if lines_comparable { a.0 == b.0 } else { a.0.iter().map(|x| &x.0).eq(b.0.iter().map(|x| &x.0)) };
                if !items_eq || a.1 != b.1 {
                    ctx.violation("injection", &format!("{} inject[{k}]={inj:?}", crate::c01::witness(&tcfg, &s)), json!({"spliced_source": spliced, "as_written": format!("{:?}", a), "injected": format!("{:?}", b)}));
                }
            }
        }
        // tree level (real Script result from the tree builder)
        let cfg = TreeCfg::default();
        let want = guarded(|| run_tree(&cfg, &[Feed::Chunk(spliced.clone())], &Env::default(), true));
        let env = Env { inject: vec![(*k, inj.to_string())], ..Default::default() };
        for s in chunkings(src, max_cuts, 0) {
            st.evals.fetch_add(1, Ordering::Relaxed);
            let got = guarded(|| run_tree(&cfg, &s, &env, true));
            if let (Ok(w), Ok(g)) = (&want, &got) {
                let (a, b) = (tree_signature(w), tree_signature(g));
                if a.0 != b.0 || a.2 != b.2 {
                    ctx.violation("injection-tree", &crate::e2::witness(&cfg, &s, &env), json!({"spliced_source": spliced, "as_written": a.0, "injected": b.0}));
                }
            }
        }
    });
    st.inputs.fetch_add(cases.len() as u64, Ordering::Relaxed);
}

/// Script suspension happens immediately after the script end tag: state is
/// Data and the unread queue is exactly the unconsumed suffix.
fn pause_position_cases(ctx: &Ctx, st: &Stats) {
    let srcs = ["<script>a</script>rest<b>", "<script>a</script >rest", "<script>a</script\n>&amp;", "x<script></script>\r\ny", "<svg><script>a</script>tail"];
    for src in srcs {
        for s in chunkings(src, 1, 0) {
            st.evals.fetch_add(1, Ordering::Relaxed);
            let p = make_parser(&TreeCfg::default());
            let mut fed = String::new();
            let mut ok = true;
            for f in &s {
                if let Feed::Chunk(c) = f {
                    fed.push_str(c);
                    p.input_buffer.push_back(html5ever::tendril::StrTendril::from_slice(c));
                }
                loop {
                    match p.tokenizer.feed(&p.input_buffer) {
                        markup5ever::TokenizerResult::Script(_) => {
                            let d = p.tokenizer.verif_dump();
                            let q = p.input_buffer.clone();
                            let mut left = String::new();
                            while let Some(t) = q.pop_front() {
                                left.push_str(&t);
                            }
                            let consumed = &fed[..fed.len() - left.len()];
                            let tail_ok = fed.ends_with(&left);
                            let ends_with_tag = consumed.trim_end_matches(|c: char| c != '>').ends_with('>')
                                && consumed.rfind("</script").map(|i| consumed[i..].chars().filter(|c| *c == '>').count() == 1).unwrap_or(false)
                                && consumed.ends_with('>');
                            if d.state != "Data" || !tail_ok || !ends_with_tag || d.reconsume {
                                ok = false;
                                ctx.violation(
                                    "pause-position",
                                    &crate::e2::witness(&TreeCfg::default(), &s, &Env::default()),
                                    json!({"state": d.state, "consumed": consumed, "unread": left}),
                                );
                            }
                            if p.input_buffer.is_empty() {
                                break;
                            }
                        },
                        markup5ever::TokenizerResult::Done => break,
                        _ => {
                            if p.input_buffer.is_empty() {
                                break;
                            }
                        },
                    }
                }
                if !ok {
                    break;
                }
            }
        }
    }
}

pub fn tok_corpus(tier: Tier) -> Vec<(TokCfg, String)> {
    let lex = lexemes();
    let mut v = vec![];
    let cfgs = [
        TokCfg::default(),
        TokCfg { cdata: true, ..Default::default() },
        TokCfg { start: 2, last_start_tag: Some("t"), ..Default::default() },
        TokCfg { start: 4, last_start_tag: Some("script"), ..Default::default() },
    ];
    for (ci, cfg) in cfgs.iter().enumerate() {
        let ws = control_witnesses(cfg);
        for w in &ws {
            for a in &lex {
                if *a == crate::c01::P16 && ci > 0 {
                    continue;
                }
                for cl in ["", ">", "\"'>-->]]>"] {
                    v.push((cfg.clone(), format!("{w}{a}{cl}")));
                }
                if ci == 0 && tier == Tier::Thorough {
                    for b in &lex {
                        if b.len() <= 2 {
                            v.push((cfg.clone(), format!("{w}{a}{b}>")));
                        }
                    }
                }
            }
        }
    }
    for s in STRESS {
        v.push((TokCfg::default(), s.to_string()));
        v.push((TokCfg { cdata: true, ..Default::default() }, s.to_string()));
    }
    for s in crate::c15::keyword_prefix_corpus() {
        v.push((TokCfg { cdata: true, ..Default::default() }, s));
    }
    // every string of <= 5 symbols over the line-break alphabet (flags set by one character and
    // consumed by a later one: CR..LF with text, markup or a reference in between), in every text-like state
    for (ci, cfg) in cfgs.iter().enumerate() {
        for s in small_strings(&["\r", "\n", "a", "<p>", "&amp;", "\0"], if ci == 0 { 5 } else { 4 }) {
            v.push((cfg.clone(), s));
        }
    }
    v
}

/// all non-empty strings of at most `k` symbols over `alpha`
pub fn small_strings(alpha: &[&str], k: usize) -> Vec<String> {
    let mut out = vec![];
    let mut level: Vec<String> = vec![String::new()];
    for _ in 0..k {
        let mut next = vec![];
        for p in &level {
            for a in alpha {
                next.push(format!("{p}{a}"));
            }
        }
        out.extend(next.iter().cloned());
        level = next;
    }
    out
}

pub fn tree_corpus(tier: Tier) -> Vec<(TreeCfg, String)> {
    let sig = sigma_full();
    let mut v = vec![];
    let cfgs = [TreeCfg::default(), TreeCfg { scripting: false, ..Default::default() }];
    for a in &sig {
        for b in &sig {
            v.push((cfgs[0].clone(), format!("{a}{b}")));
        }
        v.push((cfgs[1].clone(), a.to_string()));
    }
    for w in mode_witnesses() {
        for a in &sig {
            v.push((cfgs[0].clone(), format!("{}{a}", w.concat())));
            if tier == Tier::Thorough {
                for b in &sig {
                    if b.len() <= 4 {
                        v.push((cfgs[0].clone(), format!("{}{a}{b}", w.concat())));
                    }
                }
            }
        }
    }
    for s in STRESS {
        v.push((cfgs[0].clone(), s.to_string()));
    }
    for pre in ["", "<pre>", "<textarea>", "<title>", "<script>", "<table>", "<svg>"] {
        for t in small_strings(&["\r", "\n", "a", "<b>", "&amp;"], 4) {
            v.push((cfgs[0].clone(), format!("{pre}{t}")));
        }
    }
    for s in ["<meta charset=x>y", "<meta http-equiv=content-type content='a;charset=b'>y", "<table><meta charset=x>", "<pre>\r\n\r\nx", "<textarea>\r\n</textarea>", "<table> x<b>y</table>", "a\u{feff}b"] {
        v.push((cfgs[0].clone(), s.to_string()));
    }
    v
}

pub fn main(ctx: &Ctx) -> ! {
    let st = Stats { evals: AtomicU64::new(0), inputs: AtomicU64::new(0), outcomes: Mutex::new(BTreeSet::new()) };
    let (max_cuts, full) = ctx.tier.pick((2, 7), (3, 12));
    let tc = tok_corpus(ctx.tier);
    tc.par_iter().for_each(|(cfg, input)| {
        let mut local = BTreeSet::new();
        let n = input.chars().count();
        let mc = if n > 40 { 1 } else if n > 24 { max_cuts.min(2) } else { max_cuts };
        let mut scheds = chunkings(input, mc, full);
        // empty feeds: one at every position of the single-cut schedules
        for s in chunkings(input, 1, 0).into_iter().take(6) {
            scheds.extend(with_empty_feeds(&s));
        }
        tok_case(ctx, &st, cfg, input, &scheds, &mut local);
        st.outcomes.lock().unwrap().extend(local);
    });
    let tok_inputs = tc.len();
    let trc = tree_corpus(ctx.tier);
    trc.par_iter().for_each(|(cfg, input)| {
        let mut local = BTreeSet::new();
        let n = input.chars().count();
        let mc = if n > 40 { 1 } else if n > 20 { 2.min(max_cuts) } else { max_cuts.min(2) };
        let scheds = chunkings(input, mc, if ctx.tier == Tier::Thorough { 10 } else { 0 });
        tree_case(ctx, &st, cfg, input, &scheds, &mut local);
        st.outcomes.lock().unwrap().extend(local);
    });
    pause_cases(ctx, &st, ctx.tier);
    pause_position_cases(ctx, &st);
    ctx.assume("corpus: shortest witness of every tokenizer control state (4 start configurations) x every lexeme x 3 closers; all pairs of tree lexemes and every insertion-mode witness x lexeme; hand-listed look-ahead stress strings (CR/CRLF before each keyword, BOM positions, references, pre/textarea + CRLF)");
    ctx.assume("oracle is differential: the one-piece run of the same (or spliced) source; compared: tokens, tokenizer parse errors with position, every token's line (character run: line delivered with its last piece), non-Done results, final tree and quirks mode");
    ctx.finish(
        "fault_enumeration",
        json!({
            "evaluations": st.evals.load(Ordering::Relaxed),
            "distinct_nontrivial": st.outcomes.lock().unwrap().len(),
            "inputs": st.inputs.load(Ordering::Relaxed),
            "token_level_inputs": tok_inputs,
            "tree_level_inputs": trc.len(),
            "rule": format!("every input of the corpus under every schedule with <= {max_cuts} cuts (all 2^(n-1) chunkings when the input has <= {full} characters), plus one empty feed at every position, plus every (script pause, injected string) pair under <= {} cuts; distinct_nontrivial = distinct one-piece outputs", ctx.tier.pick(1, 2)),
            "exhaustive": true,
            "samples": ["<!DOCTYPE a\\r | \\nPUBLIC 'x'>", "a | \\ufeffb", "<script>a</script> +inject '&am' | p;z", "<table> | x<b>y</table>"],
        }),
    )
}

// ------------------------------------------------------------------ C08

fn strip_leading_bom_item(items: &mut Vec<Item>) {
    if let Some(Item::Text(t)) = items.first_mut() {
        if t.starts_with('\u{feff}') {
            *t = t['\u{feff}'.len_utf8()..].to_string();
            if t.is_empty() {
                items.remove(0);
            }
        }
    }
}

/// C09, forwarding clause: the tree builder must have told the sink the line of the token it is
/// processing before any tree-changing sink call made for that token (tree corpus with line breaks in
/// every position, one-piece and one-cut schedules)
pub fn line_forwarding(ctx: &Ctx) -> (u64, u64) {
    let mut corpus: Vec<(TreeCfg, String)> = tree_corpus(ctx.tier);
    for s in ["\n<p>\n<b>\nx\n</b>\n</p>\n", "<table>\nx\n<tr>\n<td>\ny", "<!--\n--><!DOCTYPE html>\n<html>\n<head>\n<title>\nt</title>\n</head>\n<body>\n", "<a\nhref='\n'>\n<svg>\n<g\n/>\n", "\r\n<p>\r<i>\r\n\r</p>x", "<pre>\n\n<b>", "<script>\n</script>\n<p>", "<template>\n<td>\n</template>\n<div>"] {
        corpus.push((TreeCfg::default(), s.to_string()));
    }
    let checked = AtomicU64::new(0);
    let runs = AtomicU64::new(0);
    corpus.par_iter().for_each(|(cfg, input)| {
        let n = input.chars().count();
        for s in chunkings(input, if n > 24 { 0 } else { 1 }, 0) {
            runs.fetch_add(1, Ordering::Relaxed);
            if let Ok(o) = guarded(|| run_tree(cfg, &s, &Env::default(), true)) {
                let sink = o.sink.as_ref().unwrap();
                checked.fetch_add(sink.line_checked.get(), Ordering::Relaxed);
                if let Some(m) = sink.line_problems.borrow().first() {
                    ctx.violation("line-forwarding", &crate::e2::witness(cfg, &s, &Env::default()), json!({"message": m}));
                }
            }
        }
    });
    (runs.load(Ordering::Relaxed), checked.load(Ordering::Relaxed))
}

pub fn main_c08(ctx: &Ctx) -> ! {
    let st = Stats { evals: AtomicU64::new(0), inputs: AtomicU64::new(0), outcomes: Mutex::new(BTreeSet::new()) };
    let max_cuts = ctx.tier.pick(1, 2);
    // token level: exact_errors x discard_bom (profile prints to stdout; exercised on a slice below)
    let mut tc = tok_corpus(ctx.tier);
    // SIMD windows: scalar path (forced by exact_errors) vs SIMD path
    // (two specials at all position pairs; fillers 'x', LF and a two-byte character)
    let wl: Vec<(usize, char)> = ['x', '\n', '\u{e9}'].iter().flat_map(|&f| (14..=ctx.tier.pick(34, 50)).map(move |l| (l, f))).collect();
    let windows: Vec<(TokCfg, String)> = wl
        .par_iter()
        .flat_map_iter(|&(len, f)| {
            let mut v = vec![];
            crate::c01::window_strings(len, f, |s| v.push((TokCfg::default(), s.to_string())));
            v
        })
        .collect();
    let n_windows = windows.len();
    let first_window = tc.len();
    tc.extend(windows);
    tc.par_iter().enumerate().for_each(|(idx, (cfg, input))| {
        let mut local = BTreeSet::new();
        let n = input.chars().count();
        // the window strings are fed in one piece: the SIMD path needs the whole run in one buffer
        let scheds = chunkings(input, if idx >= first_window { 0 } else if n > 30 { 1.min(max_cuts) } else { max_cuts }, 0);
        for s in &scheds {
            let base = match guarded(|| run_real(cfg, s, &[], true, false)) {
                Ok(b) => b,
                Err(_) => continue,
            };
            let bitems: Vec<Item> = base.items.iter().map(|x| x.0.clone()).collect();
            local.insert(digest(&bitems));
            for (ee, bom) in [(true, true), (false, false), (true, false)] {
                let c2 = TokCfg { exact_errors: ee, discard_bom: bom, ..cfg.clone() };
                st.evals.fetch_add(1, Ordering::Relaxed);
                match guarded(|| run_real(&c2, s, &[], true, false)) {
                    Err(p) => {
                        ctx.violation("panic-under-option", &crate::c01::witness(&c2, s), json!({"panic": p}));
                    },
                    Ok(o) => {
                        let mut items: Vec<Item> = o.items.iter().map(|x| x.0.clone()).collect();
                        if !bom && cfg.discard_bom && input.starts_with('\u{feff}') {
                            // the only permitted difference: the very first character of the stream
                            strip_leading_bom_item(&mut items);
                        }
                        let lines_a: Vec<u64> = base.items.iter().filter(|x| !matches!(x.0, Item::Text(_) | Item::Null)).map(|x| x.1).collect();
                        let lines_b: Vec<u64> = o.items.iter().filter(|x| !matches!(x.0, Item::Text(_) | Item::Null)).map(|x| x.1).collect();
                        if items != bitems {
                            ctx.violation("tokens-differ-under-option", &crate::c01::witness(&c2, s), json!({"default": format!("{bitems:?}"), "with_option": format!("{items:?}")}));
                        } else if lines_a != lines_b {
                            ctx.violation("lines-differ-under-option", &crate::c01::witness(&c2, s), json!({"default": format!("{lines_a:?}"), "with_option": format!("{lines_b:?}")}));
                        }
                    },
                }
            }
        }
        st.inputs.fetch_add(1, Ordering::Relaxed);
        st.outcomes.lock().unwrap().extend(local);
    });
    // xml5ever: the same option independence (exact_errors, discard_bom) over the XML corpus, one-chunk and
    // one-cut schedules; the shared routine reports under this check's property
    let xml_inputs = crate::c15::corpus(ctx.tier);
    {
        let xst = crate::c15::Stats { evals: AtomicU64::new(0), outcomes: Mutex::new(BTreeSet::new()) };
        xml_inputs.par_iter().for_each(|input| {
            let mut local = BTreeSet::new();
            crate::c15::check_input(ctx, &xst, input, 1, 0, &mut local);
        });
        st.evals.fetch_add(xst.evals.load(Ordering::Relaxed), Ordering::Relaxed);
    }
    // tree level: tb exact_errors x tok exact_errors x drop_doctype x discard_bom
    let mut trc = tree_corpus(ctx.tier);
    // every quirks / limited-quirks / no-quirks doctype class (drop_doctype must not change the mode decision)
    for d in crate::sweeps::doctype_inputs().into_iter().step_by(ctx.tier.pick(3, 1)) {
        trc.push((TreeCfg::default(), d));
    }
    for dt in ["<!DOCTYPE html>", "<!DOCTYPE x PUBLIC \"-//W3C//DTD HTML 4.01 Frameset//\">x", "<!DOCTYPE html SYSTEM \"about:legacy-compat\"><p>", "\u{feff}<!DOCTYPE html>a", "<!-- c --><!DOCTYPE html PUBLIC \"-//W3O//DTD W3 HTML 3.0//\">"] {
        trc.push((TreeCfg::default(), dt.to_string()));
    }
    trc.par_iter().for_each(|(cfg, input)| {
        let mut local = BTreeSet::new();
        let n = input.chars().count();
        let scheds = chunkings(input, if n > 24 { 0 } else { 1 }, 0);
        let env = Env::default();
        for s in &scheds {
            let Ok(base) = guarded(|| run_tree(cfg, s, &env, true)) else { continue };
            let bs = tree_signature(&base);
            local.insert(digest(&bs.0));
            for bits in 1..16u32 {
                let c2 = TreeCfg { tok_exact: bits & 1 != 0, tb_exact: bits & 2 != 0, drop_doctype: bits & 4 != 0, discard_bom: bits & 8 == 0, ..cfg.clone() };
                st.evals.fetch_add(1, Ordering::Relaxed);
                match guarded(|| run_tree(&c2, s, &env, true)) {
                    Err(p) => {
                        ctx.violation("panic-under-option", &crate::e2::witness(&c2, s, &env), json!({"panic": p}));
                    },
                    Ok(o) => {
                        let os = tree_signature(&o);
                        let mut want = bs.0.clone();
                        let mut got = os.0.clone();
                        if c2.drop_doctype {
                            // the only permitted difference: the doctype child
                            want = want.lines().filter(|l| !l.trim_start().starts_with("<!DOCTYPE")).collect::<Vec<_>>().join("\n");
                            got = got.lines().filter(|l| !l.trim_start().starts_with("<!DOCTYPE")).collect::<Vec<_>>().join("\n");
                            if os.0.lines().any(|l| l.trim_start().starts_with("<!DOCTYPE ")) {
                                ctx.violation("doctype-not-dropped", &crate::e2::witness(&c2, s, &env), json!({"tree": os.0}));
                            }
                        }
                        if !c2.discard_bom && input.starts_with('\u{feff}') {
                            // compare against the default run of the input with the BOM kept as text: not derivable
                            // from the default tree, so compare with the run of the same options on the one-piece input
                            continue;
                        }
                        if want != got || bs.1 != os.1 || bs.3 != os.3 {
                            ctx.violation("tree-differs-under-option", &crate::e2::witness(&c2, s, &env), json!({"default": bs.0, "with_option": os.0, "quirks": [bs.1.clone(), os.1.clone()]}));
                        }
                    },
                }
            }
        }
        st.inputs.fetch_add(1, Ordering::Relaxed);
        st.outcomes.lock().unwrap().extend(local);
    });
    // discard_bom=false: the only difference is one leading U+FEFF that is the first character of the stream
    // (schedules include empty feeds at every position: an empty first feed must not use up the one-shot check)
    for (input, _) in [("\u{feff}a", 0), ("\u{feff}", 0), ("\u{feff}\u{feff}<p>", 0), ("a\u{feff}", 0), ("\u{feff}<!DOCTYPE html><title>t</title>x", 0), ("\u{feff}\r\n<p>", 0)] {
        let mut scheds = chunkings(input, 2, 8);
        for base in chunkings(input, 1, 0).into_iter().take(4) {
            scheds.extend(with_empty_feeds(&base));
            let mut two = base.clone();
            two.insert(0, Feed::Empty);
            two.insert(0, Feed::Empty);
            scheds.push(two);
        }
        for s in scheds {
            st.evals.fetch_add(1, Ordering::Relaxed);
            let a = run_tree(&TreeCfg::default(), &s, &Env::default(), true);
            let b = run_tree(&TreeCfg { discard_bom: false, ..Default::default() }, &s, &Env::default(), true);
            let rest = input.strip_prefix('\u{feff}').unwrap_or(input);
            let c = run_tree(&TreeCfg { discard_bom: false, ..Default::default() }, &[Feed::Chunk(rest.to_string())], &Env::default(), true);
            if tree_signature(&a).0 != tree_signature(&c).0 {
                ctx.violation("bom", &crate::e2::witness(&TreeCfg::default(), &s, &Env::default()), json!({"note": "default run differs from the run of the input without its first U+FEFF"}));
            }
            if !input.starts_with('\u{feff}') && tree_signature(&a).0 != tree_signature(&b).0 {
                ctx.violation("bom", &crate::e2::witness(&TreeCfg { discard_bom: false, ..Default::default() }, &s, &Env::default()), json!({"note": "discard_bom changed a stream that does not start with U+FEFF"}));
            }
        }
    }
    // profile=true (prints a report to stdout at end()): exhaustive slice in a child with stdout closed
    let exe = std::env::current_exe().unwrap();
    let o = std::process::Command::new(&exe).args(["C08", "--profile-slice"]).stdout(std::process::Stdio::null()).output().unwrap_or_else(|e| machinery(&format!("{e}")));
    let prof_cases: u64 = String::from_utf8_lossy(&o.stderr).lines().filter_map(|l| l.strip_prefix("profile-slice cases=")).filter_map(|n| n.parse().ok()).next().unwrap_or(0);
    match o.status.code() {
        Some(0) => {},
        Some(1) => {
            for l in String::from_utf8_lossy(&o.stderr).lines().filter(|l| l.starts_with("PROFILE-DIFF ")).take(3) {
                ctx.violation("profile", l, json!({}));
            }
        },
        c => machinery(&format!("profile slice child exited with {c:?}: {}", String::from_utf8_lossy(&o.stderr))),
    }
    st.evals.fetch_add(prof_cases, Ordering::Relaxed);
    ctx.assume("same corpus as C03; every option vector is compared with the all-default run under the same schedule; SIMD window strings compare the scalar path (forced by exact_errors) with the SIMD path");
    ctx.assume("profile=true writes a timing report to stdout; those runs happen in a child process with stdout closed and only tokens/trees are compared");
    ctx.finish(
        "fault_enumeration",
        json!({
            "evaluations": st.evals.load(Ordering::Relaxed),
            "distinct_nontrivial": st.outcomes.lock().unwrap().len(),
            "inputs": st.inputs.load(Ordering::Relaxed),
            "profile_slice_cases": prof_cases,
            "simd_window_strings": n_windows,
            "xml_inputs": xml_inputs.len(),
            "rule": format!("corpus x schedules with <= {max_cuts} cuts x option vectors (tokenizer exact_errors x discard_bom; tree: tokenizer/tree-builder exact_errors x drop_doctype x discard_bom; profile on an exhaustive slice): token stream minus ParseError tokens, non-character token lines, final tree, quirks mode and encoding indicators identical to the default-options run under the same schedule; permitted differences: a leading U+FEFF (discard_bom), the doctype child (drop_doctype)"),
            "exhaustive": true,
            "samples": ["xxxxxxxxxxxxxxx\\r\\nx exact_errors=true vs false", "<!DOCTYPE html>a drop_doctype", "\\ufeffa discard_bom=false"],
        }),
    )
}

/// child: profile=true on a slice of the corpus; prints nothing but the verdict on stderr
pub fn profile_slice() -> ! {
    let lex = lexemes();
    let mut n = 0u64;
    let mut bad = 0;
    let mut inputs: Vec<String> = STRESS.iter().map(|s| s.to_string()).collect();
    for a in &lex {
        for b in &lex {
            inputs.push(format!("<{a}{b}>"));
            inputs.push(format!("{a}{b}"));
        }
    }
    for input in inputs {
        for s in chunkings(&input, 1, 0) {
            n += 1;
            let a = guarded(|| run_real(&TokCfg::default(), &s, &[], true, false));
            let b = guarded(|| run_real(&TokCfg { profile: true, ..Default::default() }, &s, &[], true, false));
            if let (Ok(a), Ok(b)) = (a, b) {
                if a.items != b.items || a.errors != b.errors {
                    eprintln!("PROFILE-DIFF {}", crate::c01::witness(&TokCfg { profile: true, ..Default::default() }, &s));
                    bad += 1;
                }
            }
        }
        let ta = guarded(|| run_tree(&TreeCfg::default(), &[Feed::Chunk(input.clone())], &Env::default(), true));
        let tb = guarded(|| run_tree(&TreeCfg { profile: true, ..Default::default() }, &[Feed::Chunk(input.clone())], &Env::default(), true));
        n += 1;
        if let (Ok(a), Ok(b)) = (ta, tb) {
            if tree_signature(&a) != tree_signature(&b) {
                eprintln!("PROFILE-DIFF tree {input:?}");
                bad += 1;
            }
        }
    }
    eprintln!("profile-slice cases={n}");
    std::process::exit(if bad > 0 { 1 } else { 0 });
}

pub fn replay(ctx: &Ctx, v: &serde_json::Value) {
    let w = v["witness"].as_str().unwrap_or("");
    if w.starts_with("start=") {
        let (cfg, sched) = crate::c01::parse_witness(w.split(" inject[").next().unwrap());
        let input: String = sched.iter().map(|f| if let Feed::Chunk(s) = f { s.as_str() } else { "" }).collect();
        let st = Stats { evals: AtomicU64::new(0), inputs: AtomicU64::new(0), outcomes: Mutex::new(BTreeSet::new()) };
        let mut local = BTreeSet::new();
        tok_case(ctx, &st, &cfg, &input, &[sched], &mut local);
    } else {
        let (cfg, sched, _env) = crate::e2::parse_tree_witness(w);
        let input: String = sched.iter().map(|f| if let Feed::Chunk(s) = f { s.as_str() } else { "" }).collect();
        let st = Stats { evals: AtomicU64::new(0), inputs: AtomicU64::new(0), outcomes: Mutex::new(BTreeSet::new()) };
        let mut local = BTreeSet::new();
        tree_case(ctx, &st, &cfg, &input, &[sched], &mut local);
    }
    println!("replay: {}", if ctx.violations() == 0 { "passes" } else { "FAILS" });
}
