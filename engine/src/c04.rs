//! C04 extras: option vectors, scale grid (child processes), xml5ever.
use crate::common::*;
use crate::e2::*;
use crate::tokh::Feed;
use crate::treeh::*;
use rayon::prelude::*;
use serde_json::json;
use std::sync::atomic::Ordering;

pub fn option_vectors() -> Vec<TreeCfg> {
    let mut v = vec![];
    for bits in 0..64u32 {
        v.push(TreeCfg {
            tok_exact: bits & 1 != 0,
            tb_exact: bits & 2 != 0,
            discard_bom: bits & 4 == 0,
            drop_doctype: bits & 8 != 0,
            scripting: bits & 16 == 0,
            iframe_srcdoc: bits & 32 != 0,
            ..Default::default()
        });
    }
    v
}

pub fn extra(ctx: &Ctx, stats: &Stats) {
    // all option vectors x all lexeme strings of length <= 2 (1-chunk and per-lexeme chunks)
    let sigma = sigma_full();
    let mut sig: Vec<&str> = sigma.clone();
    sig.push("\u{feff}");
    sig.push("<!DOCTYPE x PUBLIC \"-//W3C//DTD HTML 4.01 Frameset//\">");
    let cfgs = option_vectors();
    let env = Env { invariants: true, ..Default::default() };
    let pairs: Vec<(usize, usize)> = (0..sig.len()).flat_map(|a| (0..=sig.len()).map(move |b| (a, b))).collect();
    pairs.par_iter().for_each(|&(a, b)| {
        let mut parts = vec![sig[a]];
        if b < sig.len() {
            parts.push(sig[b]);
        }
        for cfg in &cfgs {
            for one_chunk in [true, false] {
                let sched: Vec<Feed> = if one_chunk { vec![Feed::Chunk(parts.concat())] } else { parts.iter().map(|s| Feed::Chunk(s.to_string())).collect() };
                let r = guarded(|| run_tree(cfg, &sched, &env, true));
                stats.execs.fetch_add(1, Ordering::Relaxed);
                if let Some((k, m)) = judge(Prop::C04, cfg, &r) {
                    ctx.violation(&k, &witness(cfg, &sched, &env), json!({"message": m, "job": "option-vectors"}));
                }
            }
        }
    });
    // token level: the look-ahead / stress corpus under every schedule with <= 2 cuts: feed() must leave the
    // queue empty unless it reports a suspension, one EOF token, no panic
    {
        let mut corpus: Vec<String> = crate::c15::keyword_prefix_corpus();
        corpus.extend(crate::c03::STRESS.iter().map(|s| s.to_string()));
        corpus.par_iter().for_each(|input| {
            let cfg = crate::tokh::TokCfg { cdata: true, ..Default::default() };
            for sched in crate::c03::chunkings(input, 2, 9) {
                stats.execs.fetch_add(1, Ordering::Relaxed);
                match guarded(|| crate::tokh::run_real(&cfg, &sched, &[], true, false)) {
                    Err(p) => {
                        ctx.violation("panic", &crate::c01::witness(&cfg, &sched), json!({"panic": p, "job": "token-schedules"}));
                    },
                    Ok(o) => {
                        if let Some(p) = o.problems.first() {
                            ctx.violation("totality", &crate::c01::witness(&cfg, &sched), json!({"message": p, "job": "token-schedules"}));
                        }
                    },
                }
            }
        });
    }
    // scale grid in child processes (stack overflow / abort must be observable)
    let shapes = ["div", "b-close", "table", "template", "svg", "a", "li", "attrval", "attrs", "comment", "amp", "p-button", "font", "nobr", "select", "ruby"];
    let ns: Vec<usize> = if ctx.tier == Tier::Thorough { vec![1000, 10_000, 30_000] } else { vec![1000, 10_000] };
    let exe = std::env::current_exe().unwrap();
    let mut grid: Vec<(&str, usize)> = shapes.iter().flat_map(|s| ns.iter().map(move |n| (*s, *n))).collect();
    // single long character runs (one per run-consuming tokenizer / tree-builder path): linear work expected,
    // the child's watchdog for these is RUN_LIMIT_SECS (the unchanged code needs well under a second)
    let run_n = ctx.tier.pick(512 * 1024, 2 * 1024 * 1024);
    for r in RUN_SHAPES {
        grid.push((r, run_n));
    }
    grid.par_iter().for_each(|&(shape, n)| {
        // quadratic shapes get a smaller top size
        let n = if matches!(shape, "a" | "nobr" | "b-close" | "font") && n > 20_000 { 20_000 } else { n };
        let out = std::process::Command::new(&exe).args(["C04", "--scale", shape, &n.to_string()]).output();
        stats.execs.fetch_add(1, Ordering::Relaxed);
        match out {
            Ok(o) if o.status.success() => {},
            Ok(o) => {
                ctx.violation(
                    "scale",
                    &format!("scale shape={shape} n={n}"),
                    json!({"status": format!("{:?}", o.status), "stderr": String::from_utf8_lossy(&o.stderr).chars().take(600).collect::<String>()}),
                );
            },
            Err(e) => machinery(&format!("spawn: {e}")),
        }
    });
}

pub const RUN_LIMIT_SECS: u64 = 30;
pub const RUN_SHAPES: &[&str] = &[
    "run-text", "run-amp-name", "run-amp-name-attr", "run-amp-dec", "run-amp-hex", "run-tagname", "run-endtagname", "run-attrname", "run-attrval-dq",
    "run-attrval-sq", "run-attrval-unq", "run-tag-space", "run-comment", "run-comment-dash", "run-comment-bang", "run-bogus-comment", "run-doctype-name",
    "run-doctype-public", "run-doctype-bogus", "run-rcdata", "run-rcdata-lt", "run-rawtext", "run-script", "run-script-escaped", "run-script-double",
    "run-plaintext", "run-cdata", "run-cdata-brackets", "run-lt", "run-cr", "run-crlf", "run-nul", "run-table-space", "run-table-text", "run-pre-lf",
    "run-multibyte", "run-xml-pi",
];

pub fn scale_input(shape: &str, n: usize) -> String {
    match shape {
        "div" => "<div>".repeat(n),
        "b-close" => format!("{}{}", "<b>".repeat(n), "</b>".repeat(n)),
        "table" => "<table><tr><td>".repeat(n),
        "template" => "<template>".repeat(n),
        "svg" => "<svg>".repeat(n),
        "a" => "<a>x".repeat(n),
        "li" => "<li>".repeat(n),
        "attrval" => format!("<a b=\"{}\">", "x".repeat(n)),
        "attrs" => format!("<a {}>", (0..n).map(|i| format!("a{i}=1 ")).collect::<String>()),
        "comment" => format!("<!--{}-->", "-x".repeat(n)),
        "amp" => "&".repeat(n),
        "p-button" => format!("<button>{}", "<p>".repeat(n)),
        "font" => "<font>x<p>".repeat(n),
        "nobr" => "<nobr>x".repeat(n),
        "select" => format!("<select>{}", "<option>x".repeat(n)),
        "ruby" => format!("<ruby>{}", "<rb><rt>".repeat(n)),
        "run-text" => "x".repeat(n),
        "run-amp-name" => format!("&{}", "z".repeat(n)),
        "run-amp-name-attr" => format!("<p title=\"&{}\">", "9".repeat(n)),
        "run-amp-dec" => format!("&#{}", "9".repeat(n)),
        "run-amp-hex" => format!("<p title='&#x{};'>", "f".repeat(n)),
        "run-tagname" => format!("<{}", "a".repeat(n)),
        "run-endtagname" => format!("</{}>", "a".repeat(n)),
        "run-attrname" => format!("<a {}>", "b".repeat(n)),
        "run-attrval-dq" => format!("<a b=\"{}\">", "x".repeat(n)),
        "run-attrval-sq" => format!("<a b='{}'>", "\n".repeat(n)),
        "run-attrval-unq" => format!("<a b={}>", "x".repeat(n)),
        "run-tag-space" => format!("<a{}>", " ".repeat(n)),
        "run-comment" => format!("<!--{}-->", "x".repeat(n)),
        "run-comment-dash" => format!("<!--{}", "-".repeat(n)),
        "run-comment-bang" => format!("<!--{}", "--!".repeat(n / 3)),
        "run-bogus-comment" => format!("<?{}", "x".repeat(n)),
        "run-doctype-name" => format!("<!DOCTYPE {}>", "x".repeat(n)),
        "run-doctype-public" => format!("<!DOCTYPE a PUBLIC \"{}\" '{}'>", "x".repeat(n / 2), "y".repeat(n / 2)),
        "run-doctype-bogus" => format!("<!DOCTYPE a b{}>", "x".repeat(n)),
        "run-rcdata" => format!("<title>{}", "x".repeat(n)),
        "run-rcdata-lt" => format!("<title>{}", "</t".repeat(n / 3)),
        "run-rawtext" => format!("<style>{}</style>", "x".repeat(n)),
        "run-script" => format!("<script>{}", "x".repeat(n)),
        "run-script-escaped" => format!("<script><!--{}", "x-".repeat(n / 2)),
        "run-script-double" => format!("<script><!--<script>{}", "<-".repeat(n / 2)),
        "run-plaintext" => format!("<plaintext>{}", "x\0".repeat(n / 2)),
        "run-cdata" => format!("<svg><![CDATA[{}", "x".repeat(n)),
        "run-cdata-brackets" => format!("<svg><![CDATA[{}", "]".repeat(n)),
        "run-lt" => "<".repeat(n),
        "run-cr" => "\r".repeat(n),
        "run-crlf" => "\r\n".repeat(n / 2),
        "run-nul" => "\0".repeat(n),
        "run-table-space" => format!("<table>{}", " ".repeat(n)),
        "run-table-text" => format!("<table>{}", "x".repeat(n)),
        "run-pre-lf" => format!("<pre>{}", "\n".repeat(n)),
        "run-multibyte" => "\u{20ac}".repeat(n / 3),
        "run-xml-pi" => format!("<?p {}?>", "x".repeat(n)),
        _ => machinery("unknown shape"),
    }
}

/// child process body: parse (html + xml), serialize, drop; watchdog via alarm thread
pub fn scale_child(shape: &str, n: usize) -> ! {
    let input = scale_input(shape, n);
    let limit = if shape.starts_with("run-") { RUN_LIMIT_SECS } else { 300 };
    std::thread::spawn(move || {
        std::thread::sleep(std::time::Duration::from_secs(limit));
        eprintln!("watchdog: still running after {limit} s");
        std::process::exit(3);
    });
    let chunkings: Vec<Vec<Feed>> = if n <= 1000 {
        vec![vec![Feed::Chunk(input.clone())], input.chars().map(|c| Feed::Chunk(c.to_string())).collect()]
    } else {
        vec![vec![Feed::Chunk(input.clone())]]
    };
    for sched in chunkings {
        // plain RcDom through the public driver API (the monitored sink is quadratic in depth by design)
        use html5ever::tendril::TendrilSink;
        let mut p = html5ever::parse_document(markup5ever_rcdom::RcDom::default(), Default::default());
        for f in &sched {
            if let Feed::Chunk(c) = f {
                p.process(html5ever::tendril::StrTendril::from_slice(c));
            }
        }
        let rc = p.finish();
        let mut buf = Vec::new();
        let h: markup5ever_rcdom::SerializableHandle = rc.document.clone().into();
        html5ever::serialize::serialize(&mut buf, &h, Default::default()).unwrap();
        drop(rc);
        // fragment parse of the same input
        let p = html5ever::parse_fragment(
            markup5ever_rcdom::RcDom::default(),
            Default::default(),
            html5ever::QualName::new(None, html5ever::ns!(html), html5ever::local_name!("div")),
            vec![],
            true,
        );
        let rc = p.one(html5ever::tendril::StrTendril::from_slice(&input));
        drop(rc);
    }
    crate::xmlh::scale_xml(&input);
    std::process::exit(0);
}


/// xml5ever: every string of <= k lexemes (chunk per lexeme and one chunk): totality (C04) or
/// TreeSink contract (C05). Returns the number of executions.
pub fn xml_jobs(ctx: &Ctx, prop: Prop, stats: &Stats) -> u64 {
    use crate::xmlh::*;
    let lex = crate::c15::xml_lexemes();
    let mut lex2: Vec<&str> = lex.clone();
    for extra in ["<a>", "</a>", "<a/>", "</>", "<p:a xmlns:p='u'>", "<script/>", "</script>", "<?pi d?>", "<!--c-->", "<!DOCTYPE a>", "<![CDATA[x]]>", " b='c'", "</script", "<script", "</script b='c'", "&zz9;", "&zz9", "&#x;", "&#;", "&amp"] {
        lex2.push(extra);
    }
    let k = ctx.tier.pick(3, 4);
    let n = lex2.len();
    let firsts: Vec<usize> = (0..n).collect();
    let count = std::sync::atomic::AtomicU64::new(0);
    firsts.par_iter().for_each(|&f| {
        let mut stack: Vec<Vec<usize>> = vec![vec![f]];
        while let Some(cur) = stack.pop() {
            let parts: Vec<&str> = cur.iter().map(|&i| lex2[i]).collect();
            for one_chunk in [false, true] {
                let sched: Vec<Feed> = if one_chunk { vec![Feed::Chunk(parts.concat())] } else { parts.iter().map(|s| Feed::Chunk(s.to_string())).collect() };
              for exact in [false, true] {
                let cfg = XmlCfg { exact_errors: exact, ..Default::default() };
                count.fetch_add(1, Ordering::Relaxed);
                stats.execs.fetch_add(1, Ordering::Relaxed);
                let w = || crate::c15::witness(&cfg, &sched);
                if prop == Prop::C04 && !exact {
                    // the same schedule with a token sink that suspends on </script>, as the tree builder does
                    let pcfg = XmlCfg { script_pause: true, ..Default::default() };
                    match guarded(|| run_xml_tokens(&pcfg, &sched, true, false)) {
                        Err(p) => {
                            ctx.violation("panic", &format!("{} script-pause", crate::c15::witness(&pcfg, &sched)), json!({"panic": p, "job": "xml"}));
                        },
                        Ok(t) => {
                            if let Some(p) = t.problems.first() {
                                ctx.violation("totality", &format!("{} script-pause", crate::c15::witness(&pcfg, &sched)), json!({"message": p, "job": "xml"}));
                            }
                        },
                    }
                }
                match guarded(|| (run_xml_tokens(&cfg, &sched, true, false), run_xml_tree(&cfg, &sched, true))) {
                    Err(p) => {
                        if prop == Prop::C04 {
                            ctx.violation("panic", &w(), json!({"panic": p, "job": "xml"}));
                        }
                    },
                    Ok((t, tree)) => {
                        if prop == Prop::C04 {
                            if let Some(p) = t.problems.first().or(tree.problems.first()) {
                                ctx.violation("totality", &w(), json!({"message": p, "job": "xml"}));
                            }
                        }
                        if prop == Prop::C05 {
                            if let Some(c) = tree.sink.contract.borrow().first() {
                                ctx.violation("contract", &w(), json!({"message": c, "job": "xml"}));
                            }
                        }
                    },
                }
              }
            }
            if cur.len() < k {
                for i in 0..n {
                    let mut nx = cur.clone();
                    nx.push(i);
                    stack.push(nx);
                }
            }
        }
    });
    if prop == Prop::C04 {
        count.fetch_add(xml_numeric_sweep(ctx, stats), Ordering::Relaxed);
    }
    count.load(Ordering::Relaxed)
}

/// xml5ever: every numeric character reference value 0..=0x110100 in decimal and hex, plus values
/// around the u32 / u64 wrap-around points and long digit strings, in text and in an attribute
/// value, terminated by ';', by another character and by end of input: no panic, one EOF
pub fn xml_numeric_sweep(ctx: &Ctx, stats: &Stats) -> u64 {
    use crate::xmlh::*;
    let mut bodies: Vec<String> = vec![];
    for v in 0u64..=0x11_0100 {
        bodies.push(format!("#{v}"));
        bodies.push(format!("#x{v:x}"));
    }
    for base in [1u128 << 31, 1u128 << 32, 10 * (1u128 << 32), 16 * (1u128 << 32), 1u128 << 63, 1u128 << 64, 0x11_0000u128 * 10, 0x11_0000u128 * 16] {
        for k in 0..=0x120u128 {
            for v in [base + k, base.saturating_sub(k)] {
                bodies.push(format!("#{v}"));
                bodies.push(format!("#x{v:x}"));
                bodies.push(format!("#X{v:X}"));
            }
        }
    }
    for digits in 1..=40usize {
        for d in ["0", "1", "9", "f", "F"] {
            bodies.push(format!("#{}", d.repeat(digits)));
            bodies.push(format!("#x{}", d.repeat(digits)));
            bodies.push(format!("#0000000{}", d.repeat(digits)));
        }
    }
    let full = ctx.tier == Tier::Thorough;
    let n = std::sync::atomic::AtomicU64::new(0);
    bodies.par_iter().enumerate().for_each(|(idx, b)| {
        // all shapes for the interesting values; the bulk of the range in the two main shapes
        let interesting = full || idx % 64 == 0 || b.len() > 8 || {
            let v = if let Some(h) = b.strip_prefix("#x") { u64::from_str_radix(h, 16).unwrap_or(0) } else { b[1..].parse::<u64>().unwrap_or(0) };
            v < 0x200 || (0xD7F0..=0xE010).contains(&v) || (0xFDC0..=0xFE00).contains(&v) || v & 0xFFFF >= 0xFFF0 || v >= 0x10_FF00
        };
        let shapes: Vec<String> = if interesting {
            vec![format!("<a>&{b};</a>"), format!("<a>&{b}"), format!("<a>&{b}z</a>"), format!("<a b='&{b};'/>"), format!("<a b=\"&{b}\" c='&{b}'/>"), format!("<a b=&{b}>")]
        } else {
            vec![format!("<a>&{b};</a>"), format!("<a b='&{b}'/>")]
        };
        for doc in shapes {
            let sched = vec![Feed::Chunk(doc)];
            let cfg = XmlCfg::default();
            n.fetch_add(1, Ordering::Relaxed);
            stats.execs.fetch_add(1, Ordering::Relaxed);
            match guarded(|| run_xml_tokens(&cfg, &sched, true, false)) {
                Err(p) => {
                    ctx.violation("panic", &crate::c15::witness(&cfg, &sched), json!({"panic": p, "job": "xml-numeric"}));
                },
                Ok(t) => {
                    if let Some(p) = t.problems.first() {
                        ctx.violation("totality", &crate::c15::witness(&cfg, &sched), json!({"message": p, "job": "xml-numeric"}));
                    }
                },
            }
        }
    });
    n.load(Ordering::Relaxed)
}
