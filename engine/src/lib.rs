pub mod bfs;
pub mod common;
pub mod rtok;
pub mod tokh;
pub mod c01;
pub mod c11;
pub mod c12;
pub mod c13;

use common::*;
pub fn run(ctx: &Ctx) -> ! {
    match ctx.prop.as_str() {
        "C01" => c01::main(ctx, false),
        "C09" => c01::main(ctx, true),
        "C11" => c11::main(ctx),
        "C12" => c12::main(ctx),
        "C13" => c13::main(ctx),
        p => machinery(&format!("no check for {p}")),
    }
}
pub fn replay(ctx: &Ctx, v: &serde_json::Value, witness: &str) {
    let check = v["check"].as_str().unwrap_or(&ctx.prop).to_string();
    match check.as_str() {
        "C01" => c01::replay(ctx, v, false),
        "C09" => c01::replay(ctx, v, true),
        "C11" => c11::replay_with(ctx, witness, &c11::NoMonitor),
        "C12" => c12::replay(ctx, witness),
        "C13" => c13::replay(ctx, witness),
        p => machinery(&format!("no replay for {p}")),
    }
}
