pub mod bfs;
pub mod common;
pub mod rtok;
pub mod rtree;
pub mod tokh;
pub mod c01;
pub mod c02;
pub mod c03;
pub mod c04;
pub mod c07;
pub mod c10;
pub mod c11;
pub mod c12;
pub mod c13;
pub mod c14;
pub mod c15;
pub mod c16;
pub mod c18;
pub mod c19;
pub mod c20;
pub mod dom;
pub mod e2;
pub mod sweeps;
pub mod treeh;
pub mod xmlh;

use common::*;
pub fn run(ctx: &Ctx) -> ! {
    match ctx.prop.as_str() {
        "C01" => c01::main(ctx, false),
        "C02" => c02::main(ctx),
        "C03" => c03::main(ctx),
        "C08" => c03::main_c08(ctx),
        "C04" => e2::main(ctx, e2::Prop::C04),
        "C05" => e2::main(ctx, e2::Prop::C05),
        "C06" => e2::main(ctx, e2::Prop::C06),
        "C16" => c16::main(ctx, false),
        "C17" => c16::main(ctx, true),
        "C18" => e2::main(ctx, e2::Prop::C18),
        "C19" => c19::main(ctx),
        "C20" => c20::main(ctx),
        "C09" => c01::main(ctx, true),
        "C07" => c07::main(ctx),
        "C10" => c10::main(ctx),
        "C11" => c11::main(ctx),
        "C12" => c12::main(ctx),
        "C13" => c13::main(ctx),
        "C14" => c14::main(ctx),
        "C15" => c15::main(ctx),
        p => machinery(&format!("no check for {p}")),
    }
}
pub fn replay(ctx: &Ctx, v: &serde_json::Value, witness: &str) {
    let check = v["check"].as_str().unwrap_or(&ctx.prop).to_string();
    match check.as_str() {
        "C01" => c01::replay(ctx, v, false),
        "C02" => e2::replay(ctx, e2::Prop::C02, v),
        "C03" | "C08" => c03::replay(ctx, v),
        "C04" => e2::replay(ctx, e2::Prop::C04, v),
        "C05" => e2::replay(ctx, e2::Prop::C05, v),
        "C06" => e2::replay(ctx, e2::Prop::C06, v),
        "C16" => c16::replay(ctx, v, false),
        "C17" => c16::replay(ctx, v, true),
        "C18" => e2::replay(ctx, e2::Prop::C18, v),
        "C19" => c19::replay(ctx, v),
        "C20" => e2::replay(ctx, e2::Prop::C20, v),
        "C09" => c01::replay(ctx, v, true),
        "C07" => c07::replay(ctx, v),
        "C10" => c10::replay(ctx, v),
        "C11" => c11::replay_with(ctx, witness, &c11::NoMonitor),
        "C12" => c12::replay(ctx, witness),
        "C13" => c13::replay(ctx, witness),
        "C14" => c14::replay(ctx, v),
        "C15" => c15::replay(ctx, v),
        p => machinery(&format!("no replay for {p}")),
    }
}
