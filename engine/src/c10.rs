//! C10: byte-stream front ends (Utf8LossyDecoder, from_utf8(), LossyDecoder
//! over encoding_rs) equal a whole-input lossy decode under every chunking.
use crate::common::*;
use crate::dom::MSink;
use rayon::prelude::*;
use serde_json::json;
use std::borrow::Cow;
use std::collections::BTreeSet;
use std::sync::atomic::{AtomicU64, Ordering};
use std::sync::Mutex;
use tendril::stream::{LossyDecoder, TendrilSink, Utf8LossyDecoder};
use tendril::{fmt, ByteTendril, StrTendril};

#[derive(Default)]
pub struct Rec {
    pub out: Vec<u8>,
    pub pieces: usize,
    pub errors: usize,
    pub invalid_piece: bool,
    pub empty_piece: bool,
}
impl TendrilSink<fmt::UTF8> for Rec {
    type Output = Rec;
    fn process(&mut self, t: StrTendril) {
        let b: &[u8] = t.as_bytes();
        if std::str::from_utf8(b).is_err() {
            self.invalid_piece = true;
        }
        if b.is_empty() {
            self.empty_piece = true;
        }
        self.pieces += 1;
        self.out.extend_from_slice(b);
    }
    fn error(&mut self, _desc: Cow<'static, str>) {
        self.errors += 1;
    }
    fn finish(self) -> Rec {
        self
    }
}

const UTF8_ALPHABET: [u8; 17] = [0x41, 0x80, 0xBF, 0xC0, 0xC2, 0xDF, 0xE0, 0xA0, 0x9F, 0xED, 0xEF, 0xF0, 0x90, 0x8F, 0xF4, 0xF5, 0xFF];

fn chunk_masks(n: usize) -> u32 {
    if n == 0 {
        1
    } else {
        1 << (n - 1)
    }
}

fn feed_chunks<S: TendrilSink<fmt::Bytes>>(mut sink: S, bytes: &[u8], mask: u32, empty_at: Option<usize>) -> S::Output {
    let mut start = 0;
    let mut k = 0usize;
    for i in 1..=bytes.len() {
        let cut = i == bytes.len() || (mask >> (i - 1)) & 1 == 1;
        if cut {
            if empty_at == Some(k) {
                sink.process(ByteTendril::new());
            }
            sink.process(ByteTendril::from_slice(&bytes[start..i]));
            start = i;
            k += 1;
        }
    }
    if bytes.is_empty() {
        sink.process(ByteTendril::new());
    }
    sink.finish()
}

pub fn witness(kind: &str, bytes: &[u8], mask: u32, empty_at: Option<usize>) -> String {
    let mut parts = vec![];
    let mut start = 0;
    for i in 1..=bytes.len() {
        if i == bytes.len() || (mask >> (i - 1)) & 1 == 1 {
            parts.push(bytes[start..i].iter().map(|b| format!("{b:02X}")).collect::<Vec<_>>().join(""));
            start = i;
        }
    }
    format!("{kind} chunks=[{}] empty_at={:?}", parts.join(" | "), empty_at)
}

struct Acc {
    evals: AtomicU64,
    strings: AtomicU64,
    outcomes: Mutex<BTreeSet<u128>>,
}

fn utf8_case(ctx: &Ctx, acc: &Acc, bytes: &[u8], local: &mut BTreeSet<u128>) {
    let want = String::from_utf8_lossy(bytes);
    // one error per maximal ill-formed subsequence (a U+FFFD that is really in the input is not an error)
    let nrep = bytes.utf8_chunks().filter(|c| !c.invalid().is_empty()).count();
    local.insert(digest(want.as_bytes()));
    acc.strings.fetch_add(1, Ordering::Relaxed);
    for mask in 0..chunk_masks(bytes.len()) {
        let nchunks = mask.count_ones() as usize + 1;
        // empty chunk at one position (every position, only for the 2-chunk masks)
        let empties: Vec<Option<usize>> = if mask.count_ones() == 1 { (0..nchunks).map(Some).chain([None]).collect() } else { vec![None] };
        for e in empties {
            acc.evals.fetch_add(1, Ordering::Relaxed);
            let r = guarded(|| feed_chunks(Utf8LossyDecoder::new(Rec::default()), bytes, mask, e));
            match r {
                Err(p) => {
                    ctx.violation("panic", &witness("utf8", bytes, mask, e), json!({"panic": p}));
                },
                Ok(rec) => {
                    let kind = if rec.out != want.as_bytes() {
                        Some("decoded-text")
                    } else if rec.errors != nrep {
                        Some("error-count")
                    } else if rec.invalid_piece {
                        Some("invalid-utf8-piece")
                    } else {
                        None
                    };
                    if let Some(k) = kind {
                        ctx.violation(
                            k,
                            &witness("utf8", bytes, mask, e),
                            json!({"want": want, "got": String::from_utf8_lossy(&rec.out), "got_bytes": format!("{:02X?}", rec.out), "errors": rec.errors, "replacements": nrep}),
                        );
                    }
                },
            }
        }
    }
}

fn enumerate_strings(alpha: &[u8], maxlen: usize) -> Vec<Vec<u8>> {
    let mut all: Vec<Vec<u8>> = vec![vec![]];
    let mut level: Vec<Vec<u8>> = vec![vec![]];
    for _ in 0..maxlen {
        let mut next = Vec::with_capacity(level.len() * alpha.len());
        for s in &level {
            for &b in alpha {
                let mut t = s.clone();
                t.push(b);
                next.push(t);
            }
        }
        all.extend(next.iter().cloned());
        level = next;
    }
    all
}

fn tree_of_bytes_html(bytes: &[u8], mask: u32) -> Result<String, String> {
    guarded(|| {
        let p = html5ever::parse_document(MSink::new(false, false), Default::default()).from_utf8();
        let sink = feed_chunks(p, bytes, mask, None);
        let s = sink.dom.borrow().render_doc();
        format!("{s}|errors={}", sink.errors.borrow().iter().filter(|e| e.contains("byte sequence")).count())
    })
}
fn tree_of_str_html(s: &str) -> String {
    use html5ever::tendril::TendrilSink;
    let sink = html5ever::parse_document(MSink::new(false, false), Default::default()).one(StrTendril::from_slice(s));
    let r = sink.dom.borrow().render_doc();
    r
}
fn tree_of_bytes_xml(bytes: &[u8], mask: u32) -> Result<String, String> {
    guarded(|| {
        let mut ms = MSink::new(false, false);
        ms.xml = true;
        let p = xml5ever::driver::parse_document(ms, Default::default()).from_utf8();
        let sink = feed_chunks(p, bytes, mask, None);
        let s = sink.dom.borrow().render_doc();
        s
    })
}
fn tree_of_str_xml(s: &str) -> String {
    use xml5ever::tendril::TendrilSink;
    let mut ms = MSink::new(false, false);
    ms.xml = true;
    let sink = xml5ever::driver::parse_document(ms, Default::default()).one(StrTendril::from_slice(s));
    let r = sink.dom.borrow().render_doc();
    r
}

/// per-family byte alphabets for the legacy encodings
fn encoding_alphabet(name: &str) -> Vec<u8> {
    match name {
        "UTF-16LE" | "UTF-16BE" => vec![0x41, 0x00, 0xD8, 0xDC, 0xFF, 0xFE, 0x3C],
        "ISO-2022-JP" => vec![0x41, 0x1B, 0x24, 0x28, 0x42, 0x4A, 0x49, 0x21, 0x7E, 0x0E, 0x80],
        "Shift_JIS" => vec![0x41, 0x81, 0x9F, 0xE0, 0xFC, 0x40, 0x7F, 0xA1, 0xDF, 0x80, 0xFF],
        "EUC-JP" => vec![0x41, 0x8E, 0x8F, 0xA1, 0xFE, 0xDF, 0x80, 0xFF, 0xA0],
        "EUC-KR" => vec![0x41, 0x81, 0xFE, 0xA1, 0x5A, 0x61, 0x80, 0xFF],
        "Big5" => vec![0x41, 0x81, 0xFE, 0x40, 0x7E, 0xA1, 0x88, 0x62, 0x80, 0xFF],
        "GBK" | "gb18030" => vec![0x41, 0x81, 0xFE, 0x30, 0x39, 0x40, 0x7F, 0x80, 0xFF, 0xA2, 0xE3],
        "replacement" => vec![0x41, 0x80, 0x1B],
        "x-user-defined" => vec![0x41, 0x7F, 0x80, 0xFF],
        _ => vec![0x41, 0x7F, 0x80, 0x81, 0x8D, 0x90, 0x9D, 0xA0, 0xFF], // single-byte
    }
}

pub fn all_encodings() -> Vec<&'static encoding_rs::Encoding> {
    use encoding_rs::*;
    vec![
        IBM866, ISO_8859_2, ISO_8859_3, ISO_8859_4, ISO_8859_5, ISO_8859_6, ISO_8859_7, ISO_8859_8, ISO_8859_8_I, ISO_8859_10, ISO_8859_13,
        ISO_8859_14, ISO_8859_15, ISO_8859_16, KOI8_R, KOI8_U, MACINTOSH, WINDOWS_874, WINDOWS_1250, WINDOWS_1251, WINDOWS_1252, WINDOWS_1253,
        WINDOWS_1254, WINDOWS_1255, WINDOWS_1256, WINDOWS_1257, WINDOWS_1258, X_MAC_CYRILLIC, GBK, GB18030, BIG5, EUC_JP, ISO_2022_JP, SHIFT_JIS,
        EUC_KR, REPLACEMENT, UTF_16BE, UTF_16LE, X_USER_DEFINED,
    ]
}

fn enc_case(ctx: &Ctx, acc: &Acc, enc: &'static encoding_rs::Encoding, bytes: &[u8], local: &mut BTreeSet<u128>) {
    // oracle: one-shot decode (same BOM sniffing as new_decoder)
    let (want, _used, _had_errors) = enc.decode(bytes);
    let nrep_min = 0usize;
    local.insert(digest(&(enc.name(), want.as_bytes())));
    acc.strings.fetch_add(1, Ordering::Relaxed);
    for mask in 0..chunk_masks(bytes.len()) {
        acc.evals.fetch_add(1, Ordering::Relaxed);
        let r = guarded(|| feed_chunks(LossyDecoder::new_encoding_rs(enc, Rec::default()), bytes, mask, None));
        match r {
            Err(p) => {
                ctx.violation("panic", &witness(enc.name(), bytes, mask, None), json!({"panic": p}));
            },
            Ok(rec) => {
                let kind = if rec.out != want.as_bytes() {
                    Some("decoded-text")
                } else if rec.invalid_piece {
                    Some("invalid-utf8-piece")
                } else if rec.errors < nrep_min {
                    Some("error-count")
                } else {
                    None
                };
                if let Some(k) = kind {
                    ctx.violation(
                        k,
                        &witness(enc.name(), bytes, mask, None),
                        json!({"want": want, "got": String::from_utf8_lossy(&rec.out), "got_bytes": format!("{:02X?}", rec.out)}),
                    );
                }
            },
        }
    }
}

/// an io::Read that hands out `step` bytes per call, reports Interrupted `interrupted` times first and fails
/// with a hard error once `fail_at` bytes have been delivered
struct Dribble<'a> {
    data: &'a [u8],
    pos: usize,
    step: usize,
    fail_at: Option<usize>,
    interrupted: u32,
}
impl std::io::Read for Dribble<'_> {
    fn read(&mut self, buf: &mut [u8]) -> std::io::Result<usize> {
        if self.interrupted > 0 {
            self.interrupted -= 1;
            return Err(std::io::Error::from(std::io::ErrorKind::Interrupted));
        }
        if let Some(f) = self.fail_at {
            if self.pos >= f {
                return Err(std::io::Error::from(std::io::ErrorKind::BrokenPipe));
            }
        }
        let n = self.step.min(buf.len()).min(self.data.len() - self.pos);
        buf[..n].copy_from_slice(&self.data[self.pos..self.pos + n]);
        self.pos += n;
        Ok(n)
    }
}

fn rec_problem(rec: &Rec, want: &[u8], nrep: Option<usize>) -> Option<&'static str> {
    if rec.out != want {
        Some("decoded-text")
    } else if rec.invalid_piece {
        Some("invalid-utf8-piece")
    } else if nrep.is_some_and(|n| rec.errors != n) {
        Some("error-count")
    } else {
        None
    }
}

/// The other ways TendrilSink accepts a byte stream (`one`, `from_iter`, `read_from` with readers that deliver
/// everything at once / a few bytes per call / after Interrupted / fail half way, `from_file`): the same
/// decode as process()+finish(), for the UTF-8 decoder and an encoding_rs decoder.
fn front_ends(ctx: &Ctx, acc: &Acc, bytes: &[u8], label: &str) {
    let want8 = String::from_utf8_lossy(bytes).into_owned();
    let nrep = bytes.utf8_chunks().filter(|c| !c.invalid().is_empty()).count();
    let (want_sj, _, _) = encoding_rs::SHIFT_JIS.decode(bytes);
    let mut report = |how: String, r: Result<Rec, String>, want: &[u8], nrep: Option<usize>| {
        acc.evals.fetch_add(1, Ordering::Relaxed);
        match r {
            Err(p) => {
                ctx.violation("panic", &format!("front-end {how} input={label}"), json!({"panic": p}));
            },
            Ok(rec) => {
                if let Some(k) = rec_problem(&rec, want, nrep) {
                    ctx.violation(k, &format!("front-end {how} input={label}"), json!({"want_len": want.len(), "got_len": rec.out.len(), "errors": rec.errors, "first_difference": rec.out.iter().zip(want.iter()).position(|(a, b)| a != b)}));
                }
            },
        }
    };
    for sj in [false, true] {
        let want: &[u8] = if sj { want_sj.as_bytes() } else { want8.as_bytes() };
        let nr = if sj { None } else { Some(nrep) };
        let name = if sj { "Shift_JIS" } else { "utf8" };
        macro_rules! dec {
            () => {
                if sj { LossyDecoder::new_encoding_rs(encoding_rs::SHIFT_JIS, Rec::default()) } else { LossyDecoder::utf8(Rec::default()) }
            };
        }
        report(format!("{name} one"), guarded(|| dec!().one(ByteTendril::from_slice(bytes))), want, nr);
        for k in [1usize, 3, 4095, 4096, 4097] {
            let chunks: Vec<ByteTendril> = bytes.chunks(k).map(ByteTendril::from_slice).collect();
            report(format!("{name} from_iter chunk={k}"), guarded(|| dec!().from_iter(chunks)), want, nr);
        }
        for (step, intr) in [(usize::MAX, 0u32), (1, 0), (3, 0), (4095, 0), (4097, 0), (7, 3)] {
            let r = guarded(|| {
                let mut rd = Dribble { data: bytes, pos: 0, step, fail_at: None, interrupted: intr };
                dec!().read_from(&mut rd)
            });
            let r = match r {
                Ok(Ok(rec)) => Ok(rec),
                Ok(Err(e)) => Err(format!("read_from returned an error from a reader that never fails: {e}")),
                Err(p) => Err(p),
            };
            report(format!("{name} read_from step={step} interrupted={intr}"), r, want, nr);
        }
        // a reader that fails: the error comes back, nothing panics
        let r = guarded(|| {
            let mut rd = Dribble { data: bytes, pos: 0, step: 5, fail_at: Some(bytes.len() / 2), interrupted: 0 };
            dec!().read_from(&mut rd).is_err()
        });
        acc.evals.fetch_add(1, Ordering::Relaxed);
        match r {
            Ok(true) => {},
            Ok(false) => {
                if bytes.len() >= 2 {
                    ctx.violation("read-error-swallowed", &format!("front-end {name} read_from failing reader input={label}"), json!({}));
                }
            },
            Err(p) => {
                ctx.violation("panic", &format!("front-end {name} read_from failing reader input={label}"), json!({"panic": p}));
            },
        }
        let path = format!("{VERIF}/engine/target/run/c10-{}-{:x}.bin", std::process::id(), digest(&(label, sj)) as u64);
        let _ = std::fs::create_dir_all(format!("{VERIF}/engine/target/run"));
        if std::fs::write(&path, bytes).is_ok() {
            let r = guarded(|| dec!().from_file(&path));
            let _ = std::fs::remove_file(&path);
            let r = match r {
                Ok(Ok(rec)) => Ok(rec),
                Ok(Err(e)) => Err(format!("from_file: {e}")),
                Err(p) => Err(p),
            };
            report(format!("{name} from_file"), r, want, nr);
        }
    }
    // the stand-alone pieces of utf8_decode.rs: decode_utf8_lossy + IncompleteUtf8::try_complete
    for k in [1usize, 2, 3, 5, 4096] {
        let r = guarded(|| {
            let mut rec = Rec::default();
            let mut pending: Option<tendril::IncompleteUtf8> = None;
            for c in bytes.chunks(k) {
                let mut t = ByteTendril::from_slice(c);
                if let Some(mut inc) = pending.take() {
                    match inc.try_complete(t, |s| rec.process(s)) {
                        Ok(rest) => t = rest,
                        Err(()) => {
                            pending = Some(inc);
                            continue;
                        },
                    }
                }
                pending = t.decode_utf8_lossy(|s| rec.process(s));
            }
            if pending.is_some() {
                rec.process(StrTendril::from_slice("\u{fffd}"));
            }
            rec
        });
        report(format!("decode_utf8_lossy+try_complete chunk={k}"), r, want8.as_bytes(), None);
    }
}

/// inputs long enough to cross the reader's 4 KiB buffer and the 8 KiB output window of the encoding_rs
/// loop (OutputFull), with multi-byte sequences straddling those boundaries
fn long_inputs() -> Vec<(String, Vec<u8>)> {
    let mut v = vec![];
    for n in [0usize, 1, 5, 4094, 4095, 4096, 4097, 8191, 8192, 8193, 12289, 20000] {
        for (fname, unit) in [("ascii", &b"a"[..]), ("e-acute", "\u{e9}".as_bytes()), ("euro", "\u{20ac}".as_bytes()), ("emoji", "\u{1F600}".as_bytes()), ("sjis-lead", &[0x95, 0x5C][..]), ("high", &[0xE9][..])] {
            for shift in 0..unit.len().min(2) {
                let mut b: Vec<u8> = vec![b'x'; shift];
                while b.len() < n {
                    b.extend_from_slice(unit);
                }
                b.truncate(n);
                v.push((format!("{fname} len={n} shift={shift}"), b));
            }
        }
    }
    v
}

/// encoding_rs decoders on long chunks: one chunk, and two chunks cut around the 8 KiB window
fn long_chunks(ctx: &Ctx, acc: &Acc) {
    let encs = [encoding_rs::WINDOWS_1252, encoding_rs::SHIFT_JIS, encoding_rs::UTF_16LE, encoding_rs::UTF_16BE, encoding_rs::GBK, encoding_rs::UTF_8, encoding_rs::ISO_2022_JP, encoding_rs::EUC_KR];
    let inputs = long_inputs();
    inputs.par_iter().for_each(|(label, bytes)| {
        for enc in encs {
            let (want, _, _) = enc.decode(bytes);
            let mut cuts: Vec<Option<usize>> = vec![None];
            for c in [1usize, 2730, 2731, 4096, 8191, 8192, 8193] {
                if c < bytes.len() {
                    cuts.push(Some(c));
                }
            }
            for cut in cuts {
                acc.evals.fetch_add(1, Ordering::Relaxed);
                let r = guarded(|| {
                    let mut d = LossyDecoder::new_encoding_rs(enc, Rec::default());
                    match cut {
                        None => d.process(ByteTendril::from_slice(bytes)),
                        Some(c) => {
                            d.process(ByteTendril::from_slice(&bytes[..c]));
                            d.process(ByteTendril::from_slice(&bytes[c..]));
                        },
                    }
                    d.finish()
                });
                let w = format!("long-chunk {} input={label} cut={cut:?}", enc.name());
                match r {
                    Err(p) => {
                        ctx.violation("panic", &w, json!({"panic": p}));
                    },
                    Ok(rec) => {
                        if let Some(k) = rec_problem(&rec, want.as_bytes(), None) {
                            ctx.violation(k, &w, json!({"want_len": want.len(), "got_len": rec.out.len(), "first_difference": rec.out.iter().zip(want.as_bytes().iter()).position(|(a, b)| a != b)}));
                        }
                    },
                }
            }
        }
    });
}

pub fn main(ctx: &Ctx) -> ! {
    let acc = Acc { evals: AtomicU64::new(0), strings: AtomicU64::new(0), outcomes: Mutex::new(BTreeSet::new()) };
    // 1. Utf8LossyDecoder: all byte strings over the boundary alphabet
    let maxlen = ctx.tier.pick(5, 6);
    let prefixes = enumerate_strings(&UTF8_ALPHABET, 2);
    let suffixes = enumerate_strings(&UTF8_ALPHABET, maxlen - 2);
    prefixes.par_iter().for_each(|p| {
        let mut local = BTreeSet::new();
        if p.len() < 2 {
            utf8_case(ctx, &acc, p, &mut local);
        } else {
            for s in &suffixes {
                let mut b = p.clone();
                b.extend_from_slice(s);
                utf8_case(ctx, &acc, &b, &mut local);
            }
        }
        acc.outcomes.lock().unwrap().extend(local);
    });
    // every byte value: all strings of length <= 2 over all 256 bytes (and length 3 in thorough), all chunkings
    {
        let all: Vec<u8> = (0u8..=255).collect();
        let two = ctx.tier == Tier::Thorough;
        all.par_iter().for_each(|&a| {
            let mut local = BTreeSet::new();
            utf8_case(ctx, &acc, &[a], &mut local);
            for &b in &all {
                utf8_case(ctx, &acc, &[a, b], &mut local);
                if two || matches!(a, 0xC2 | 0xE0 | 0xED | 0xF0 | 0xF4) {
                    for &c in &all {
                        utf8_case(ctx, &acc, &[a, b, c], &mut local);
                    }
                }
            }
            acc.outcomes.lock().unwrap().extend(local);
        });
    }
    // long inputs: valid prefix of 100 bytes then every alphabet string of length <= 3 (buffer paths)
    let tails = enumerate_strings(&UTF8_ALPHABET, 3);
    tails.par_iter().for_each(|t| {
        let mut local = BTreeSet::new();
        let mut b = "h\u{e9}llo w\u{20ac}rld \u{1F600}".repeat(6).into_bytes();
        b.extend_from_slice(t);
        let want = String::from_utf8_lossy(&b).to_string();
        for cut in [1usize, b.len() - t.len() - 1, b.len() - t.len(), b.len() - 1] {
            let cut = cut.min(b.len().saturating_sub(1)).max(1);
            acc.evals.fetch_add(1, Ordering::Relaxed);
            let mut d = Utf8LossyDecoder::new(Rec::default());
            d.process(ByteTendril::from_slice(&b[..cut]));
            d.process(ByteTendril::from_slice(&b[cut..]));
            let rec = d.finish();
            if rec.out != want.as_bytes() || rec.invalid_piece || rec.errors != want.matches('\u{fffd}').count() {
                ctx.violation("decoded-text", &format!("utf8-long tail={t:02X?} cut={cut}"), json!({"want": want, "got": String::from_utf8_lossy(&rec.out)}));
            }
        }
        local.insert(digest(&want));
        acc.outcomes.lock().unwrap().extend(local);
    });
    // 2. from_utf8() parse == parse of the lossy string (html5ever and xml5ever)
    let tree_alpha: [u8; 12] = [0x41, 0x3C, 0x3E, 0x2F, 0xC3, 0xA9, 0xE2, 0x82, 0xF0, 0x9F, 0xFF, 0x80];
    let tl = ctx.tier.pick(4, 5);
    let ts = enumerate_strings(&tree_alpha, tl);
    ts.par_iter().for_each(|b| {
        let lossy = String::from_utf8_lossy(b).to_string();
        let nrep = lossy.matches('\u{fffd}').count();
        let want = format!("{}|errors={}", tree_of_str_html(&lossy), nrep);
        let wantx = tree_of_str_xml(&lossy);
        for mask in 0..chunk_masks(b.len()) {
            acc.evals.fetch_add(2, Ordering::Relaxed);
            match tree_of_bytes_html(b, mask) {
                Ok(got) => {
                    if got != want {
                        ctx.violation("from_utf8-tree", &witness("html-from_utf8", b, mask, None), json!({"want": want, "got": got}));
                    }
                },
                Err(p) => {
                    ctx.violation("panic", &witness("html-from_utf8", b, mask, None), json!({"panic": p}));
                },
            }
            match tree_of_bytes_xml(b, mask) {
                Ok(got) => {
                    if got != wantx {
                        ctx.violation("from_utf8-tree", &witness("xml-from_utf8", b, mask, None), json!({"want": wantx, "got": got}));
                    }
                },
                Err(p) => {
                    ctx.violation("panic", &witness("xml-from_utf8", b, mask, None), json!({"panic": p}));
                },
            }
        }
    });
    // 3. encoding_rs LossyDecoder
    let el = ctx.tier.pick(4, 5);
    let encs = all_encodings();
    encs.par_iter().for_each(|enc| {
        let mut local = BTreeSet::new();
        let alpha = encoding_alphabet(enc.name());
        let l = if alpha.len() > 9 { el.min(4).max(if ctx.tier == Tier::Thorough { 5 } else { 4 }) } else { el };
        for b in enumerate_strings(&alpha, l) {
            enc_case(ctx, &acc, enc, &b, &mut local);
        }
        // BOM prefixes followed by short strings
        for bom in [&[0xEFu8, 0xBB, 0xBF][..], &[0xFF, 0xFE][..], &[0xFE, 0xFF][..]] {
            for s in enumerate_strings(&alpha[..alpha.len().min(4)], 3) {
                let mut b = bom.to_vec();
                b.extend_from_slice(&s);
                enc_case(ctx, &acc, enc, &b, &mut local);
            }
        }
        acc.outcomes.lock().unwrap().extend(local);
    });
    // UTF-8 through LossyDecoder::utf8 / new_encoding_rs(UTF_8)
    for b in enumerate_strings(&UTF8_ALPHABET, 3) {
        let want = String::from_utf8_lossy(&b);
        for mask in 0..chunk_masks(b.len()) {
            acc.evals.fetch_add(1, Ordering::Relaxed);
            let rec = feed_chunks(LossyDecoder::new_encoding_rs(encoding_rs::UTF_8, Rec::default()), &b, mask, None);
            if rec.out != want.as_bytes() {
                ctx.violation("decoded-text", &witness("LossyDecoder-UTF-8", &b, mask, None), json!({"want": want, "got": String::from_utf8_lossy(&rec.out)}));
            }
        }
    }
    // 4. the other front ends and long inputs
    long_chunks(ctx, &acc);
    {
        let mut inputs = long_inputs();
        for b in enumerate_strings(&UTF8_ALPHABET, 2) {
            inputs.push((format!("{b:02X?}"), b));
        }
        inputs.par_iter().for_each(|(label, bytes)| front_ends(ctx, &acc, bytes, label));
    }
    ctx.assume("front ends: one / from_iter / read_from (whole, 1, 3, 4095, 4097 bytes per read, Interrupted first, failing half way) / from_file and the stand-alone decode_utf8_lossy + IncompleteUtf8::try_complete pair, over the short strings and over inputs of 0..20000 bytes whose multi-byte units straddle the 4 KiB read buffer and the 8 KiB encoding_rs output window");
    ctx.assume("UTF-8 alphabet {41,80,BF,C0,C2,DF,E0,A0,9F,ED,EF,F0,90,8F,F4,F5,FF}: every lead/continuation class of the UTF-8 table; oracle String::from_utf8_lossy (std)");
    ctx.assume("encoding_rs: 39 encodings with per-family byte alphabets of 3-11 bytes (ASCII, lead, trail, invalid trail, ESC sequences, surrogate halves, BOMs); oracle Encoding::decode (one shot) - encoding_rs itself is the trusted base");
    ctx.finish(
        "exploration",
        json!({
            "evaluations": acc.evals.load(Ordering::Relaxed),
            "distinct_nontrivial": acc.outcomes.lock().unwrap().len(),
            "byte_strings": acc.strings.load(Ordering::Relaxed),
            "rule": format!("all byte strings of length <= {maxlen} over the UTF-8 boundary alphabet x all 2^(n-1) chunkings (+ an empty chunk at every position of every 2-chunk split): concatenated output == from_utf8_lossy, #errors == #U+FFFD, every piece valid UTF-8; from_utf8() parse tree == tree of the lossy string for all strings <= {tl} over a 12-byte markup alphabet (html5ever and xml5ever); every encoding_rs encoding over its family alphabet up to length {el}, all chunkings, vs one-shot decode. distinct_nontrivial = distinct expected decodings."),
            "exhaustive": true,
            "samples": ["utf8 chunks=[E0 | A0 | 41]", "utf8 chunks=[F0 90 | 8F]", "Shift_JIS chunks=[81 | 40]", "UTF-16LE chunks=[00 D8 | 00 DC]"],
        }),
    )
}

pub fn replay(ctx: &Ctx, v: &serde_json::Value) {
    let w = v["witness"].as_str().unwrap_or("");
    // "<kind> chunks=[AA BB | CC] empty_at=.."
    let kind = w.split(' ').next().unwrap_or("");
    if kind == "long-chunk" || kind == "front-end" {
        // cheap and deterministic: re-run the whole job, the witness names the case that failed
        let acc = Acc { evals: AtomicU64::new(0), strings: AtomicU64::new(0), outcomes: Mutex::new(BTreeSet::new()) };
        if kind == "long-chunk" {
            long_chunks(ctx, &acc);
        } else {
            for (label, bytes) in long_inputs() {
                front_ends(ctx, &acc, &bytes, &label);
            }
            for b in enumerate_strings(&UTF8_ALPHABET, 2) {
                front_ends(ctx, &acc, &b, &format!("{b:02X?}"));
            }
        }
        println!("replay: {}", if ctx.violations() == 0 { "passes" } else { "FAILS" });
        return;
    }
    let i = w.find("chunks=[").unwrap() + 8;
    let j = w[i..].find(']').unwrap() + i;
    let mut bytes = vec![];
    let mut mask = 0u32;
    for (k, part) in w[i..j].split(" | ").enumerate() {
        if k > 0 && !bytes.is_empty() {
            mask |= 1 << (bytes.len() - 1);
        }
        let hex: Vec<char> = part.chars().filter(|c| c.is_ascii_hexdigit()).collect();
        for p in hex.chunks(2) {
            bytes.push(u8::from_str_radix(&p.iter().collect::<String>(), 16).unwrap());
        }
    }
    let acc = Acc { evals: AtomicU64::new(0), strings: AtomicU64::new(0), outcomes: Mutex::new(BTreeSet::new()) };
    let mut local = BTreeSet::new();
    if kind == "utf8" {
        utf8_case(ctx, &acc, &bytes, &mut local);
    } else if let Some(enc) = all_encodings().into_iter().find(|e| e.name() == kind) {
        enc_case(ctx, &acc, enc, &bytes, &mut local);
    } else {
        println!("(tree-level replay) html: {:?}", tree_of_bytes_html(&bytes, mask));
    }
    println!("replay: {}", if ctx.violations() == 0 { "passes" } else { "FAILS" });
}
