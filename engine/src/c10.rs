//! C10: byte-stream front ends (Utf8LossyDecoder, from_utf8(), LossyDecoder
//! over encoding_rs) equal a whole-input lossy decode under every chunking.
use crate::common::*;
use crate::dom::MSink;
use rayon::prelude::*;
use serde_json::json;
use std::borrow::Cow;
use std::collections::BTreeSet;
use std::sync::atomic::{AtomicU64, Ordering};
use std::sync::Mutex;
use tendril::stream::{LossyDecoder, TendrilSink, Utf8LossyDecoder};
use tendril::{fmt, ByteTendril, StrTendril};

#[derive(Default)]
pub struct Rec {
    pub out: Vec<u8>,
    pub pieces: usize,
    pub errors: usize,
    pub invalid_piece: bool,
    pub empty_piece: bool,
}
impl TendrilSink<fmt::UTF8> for Rec {
    type Output = Rec;
    fn process(&mut self, t: StrTendril) {
        let b: &[u8] = t.as_bytes();
        if std::str::from_utf8(b).is_err() {
            self.invalid_piece = true;
        }
        if b.is_empty() {
            self.empty_piece = true;
        }
        self.pieces += 1;
        self.out.extend_from_slice(b);
    }
    fn error(&mut self, _desc: Cow<'static, str>) {
        self.errors += 1;
    }
    fn finish(self) -> Rec {
        self
    }
}

const UTF8_ALPHABET: [u8; 17] = [0x41, 0x80, 0xBF, 0xC0, 0xC2, 0xDF, 0xE0, 0xA0, 0x9F, 0xED, 0xEF, 0xF0, 0x90, 0x8F, 0xF4, 0xF5, 0xFF];

fn chunk_masks(n: usize) -> u32 {
    if n == 0 {
        1
    } else {
        1 << (n - 1)
    }
}

fn feed_chunks<S: TendrilSink<fmt::Bytes>>(mut sink: S, bytes: &[u8], mask: u32, empty_at: Option<usize>) -> S::Output {
    let mut start = 0;
    let mut k = 0usize;
    for i in 1..=bytes.len() {
        let cut = i == bytes.len() || (mask >> (i - 1)) & 1 == 1;
        if cut {
            if empty_at == Some(k) {
                sink.process(ByteTendril::new());
            }
            sink.process(ByteTendril::from_slice(&bytes[start..i]));
            start = i;
            k += 1;
        }
    }
    if bytes.is_empty() {
        sink.process(ByteTendril::new());
    }
    sink.finish()
}

pub fn witness(kind: &str, bytes: &[u8], mask: u32, empty_at: Option<usize>) -> String {
    let mut parts = vec![];
    let mut start = 0;
    for i in 1..=bytes.len() {
        if i == bytes.len() || (mask >> (i - 1)) & 1 == 1 {
            parts.push(bytes[start..i].iter().map(|b| format!("{b:02X}")).collect::<Vec<_>>().join(""));
            start = i;
        }
    }
    format!("{kind} chunks=[{}] empty_at={:?}", parts.join(" | "), empty_at)
}

struct Acc {
    evals: AtomicU64,
    strings: AtomicU64,
    outcomes: Mutex<BTreeSet<u128>>,
}

fn utf8_case(ctx: &Ctx, acc: &Acc, bytes: &[u8], local: &mut BTreeSet<u128>) {
    let want = String::from_utf8_lossy(bytes);
    // one error per maximal ill-formed subsequence (a U+FFFD that is really in the input is not an error)
    let nrep = bytes.utf8_chunks().filter(|c| !c.invalid().is_empty()).count();
    local.insert(digest(want.as_bytes()));
    acc.strings.fetch_add(1, Ordering::Relaxed);
    for mask in 0..chunk_masks(bytes.len()) {
        let nchunks = mask.count_ones() as usize + 1;
        // empty chunk at one position (every position, only for the 2-chunk masks)
        let empties: Vec<Option<usize>> = if mask.count_ones() == 1 { (0..nchunks).map(Some).chain([None]).collect() } else { vec![None] };
        for e in empties {
            acc.evals.fetch_add(1, Ordering::Relaxed);
            let r = guarded(|| feed_chunks(Utf8LossyDecoder::new(Rec::default()), bytes, mask, e));
            match r {
                Err(p) => {
                    ctx.violation("panic", &witness("utf8", bytes, mask, e), json!({"panic": p}));
                },
                Ok(rec) => {
                    let kind = if rec.out != want.as_bytes() {
                        Some("decoded-text")
                    } else if rec.errors != nrep {
                        Some("error-count")
                    } else if rec.invalid_piece {
                        Some("invalid-utf8-piece")
                    } else {
                        None
                    };
                    if let Some(k) = kind {
                        ctx.violation(
                            k,
                            &witness("utf8", bytes, mask, e),
                            json!({"want": want, "got": String::from_utf8_lossy(&rec.out), "got_bytes": format!("{:02X?}", rec.out), "errors": rec.errors, "replacements": nrep}),
                        );
                    }
                },
            }
        }
    }
}

fn enumerate_strings(alpha: &[u8], maxlen: usize) -> Vec<Vec<u8>> {
    let mut all: Vec<Vec<u8>> = vec![vec![]];
    let mut level: Vec<Vec<u8>> = vec![vec![]];
    for _ in 0..maxlen {
        let mut next = Vec::with_capacity(level.len() * alpha.len());
        for s in &level {
            for &b in alpha {
                let mut t = s.clone();
                t.push(b);
                next.push(t);
            }
        }
        all.extend(next.iter().cloned());
        level = next;
    }
    all
}

fn tree_of_bytes_html(bytes: &[u8], mask: u32) -> Result<String, String> {
    guarded(|| {
        let p = html5ever::parse_document(MSink::new(false, false), Default::default()).from_utf8();
        let sink = feed_chunks(p, bytes, mask, None);
        let s = sink.dom.borrow().render_doc();
        format!("{s}|errors={}", sink.errors.borrow().iter().filter(|e| e.contains("byte sequence")).count())
    })
}
fn tree_of_str_html(s: &str) -> String {
    use html5ever::tendril::TendrilSink;
    let sink = html5ever::parse_document(MSink::new(false, false), Default::default()).one(StrTendril::from_slice(s));
    let r = sink.dom.borrow().render_doc();
    r
}
fn tree_of_bytes_xml(bytes: &[u8], mask: u32) -> Result<String, String> {
    guarded(|| {
        let mut ms = MSink::new(false, false);
        ms.xml = true;
        let p = xml5ever::driver::parse_document(ms, Default::default()).from_utf8();
        let sink = feed_chunks(p, bytes, mask, None);
        let s = sink.dom.borrow().render_doc();
        s
    })
}
fn tree_of_str_xml(s: &str) -> String {
    use xml5ever::tendril::TendrilSink;
    let mut ms = MSink::new(false, false);
    ms.xml = true;
    let sink = xml5ever::driver::parse_document(ms, Default::default()).one(StrTendril::from_slice(s));
    let r = sink.dom.borrow().render_doc();
    r
}

/// per-family byte alphabets for the legacy encodings
fn encoding_alphabet(name: &str) -> Vec<u8> {
    match name {
        "UTF-16LE" | "UTF-16BE" => vec![0x41, 0x00, 0xD8, 0xDC, 0xFF, 0xFE, 0x3C],
        "ISO-2022-JP" => vec![0x41, 0x1B, 0x24, 0x28, 0x42, 0x4A, 0x49, 0x21, 0x7E, 0x0E, 0x80],
        "Shift_JIS" => vec![0x41, 0x81, 0x9F, 0xE0, 0xFC, 0x40, 0x7F, 0xA1, 0xDF, 0x80, 0xFF],
        "EUC-JP" => vec![0x41, 0x8E, 0x8F, 0xA1, 0xFE, 0xDF, 0x80, 0xFF, 0xA0],
        "EUC-KR" => vec![0x41, 0x81, 0xFE, 0xA1, 0x5A, 0x61, 0x80, 0xFF],
        "Big5" => vec![0x41, 0x81, 0xFE, 0x40, 0x7E, 0xA1, 0x88, 0x62, 0x80, 0xFF],
        "GBK" | "gb18030" => vec![0x41, 0x81, 0xFE, 0x30, 0x39, 0x40, 0x7F, 0x80, 0xFF, 0xA2, 0xE3],
        "replacement" => vec![0x41, 0x80, 0x1B],
        "x-user-defined" => vec![0x41, 0x7F, 0x80, 0xFF],
        _ => vec![0x41, 0x7F, 0x80, 0x81, 0x8D, 0x90, 0x9D, 0xA0, 0xFF], // single-byte
    }
}

pub fn all_encodings() -> Vec<&'static encoding_rs::Encoding> {
    use encoding_rs::*;
    vec![
        IBM866, ISO_8859_2, ISO_8859_3, ISO_8859_4, ISO_8859_5, ISO_8859_6, ISO_8859_7, ISO_8859_8, ISO_8859_8_I, ISO_8859_10, ISO_8859_13,
        ISO_8859_14, ISO_8859_15, ISO_8859_16, KOI8_R, KOI8_U, MACINTOSH, WINDOWS_874, WINDOWS_1250, WINDOWS_1251, WINDOWS_1252, WINDOWS_1253,
        WINDOWS_1254, WINDOWS_1255, WINDOWS_1256, WINDOWS_1257, WINDOWS_1258, X_MAC_CYRILLIC, GBK, GB18030, BIG5, EUC_JP, ISO_2022_JP, SHIFT_JIS,
        EUC_KR, REPLACEMENT, UTF_16BE, UTF_16LE, X_USER_DEFINED,
    ]
}

fn enc_case(ctx: &Ctx, acc: &Acc, enc: &'static encoding_rs::Encoding, bytes: &[u8], local: &mut BTreeSet<u128>) {
    // oracle: one-shot decode (same BOM sniffing as new_decoder)
    let (want, _used, _had_errors) = enc.decode(bytes);
    let nrep_min = 0usize;
    local.insert(digest(&(enc.name(), want.as_bytes())));
    acc.strings.fetch_add(1, Ordering::Relaxed);
    for mask in 0..chunk_masks(bytes.len()) {
        acc.evals.fetch_add(1, Ordering::Relaxed);
        let r = guarded(|| feed_chunks(LossyDecoder::new_encoding_rs(enc, Rec::default()), bytes, mask, None));
        match r {
            Err(p) => {
                ctx.violation("panic", &witness(enc.name(), bytes, mask, None), json!({"panic": p}));
            },
            Ok(rec) => {
                let kind = if rec.out != want.as_bytes() {
                    Some("decoded-text")
                } else if rec.invalid_piece {
                    Some("invalid-utf8-piece")
                } else if rec.errors < nrep_min {
                    Some("error-count")
                } else {
                    None
                };
                if let Some(k) = kind {
                    ctx.violation(
                        k,
                        &witness(enc.name(), bytes, mask, None),
                        json!({"want": want, "got": String::from_utf8_lossy(&rec.out), "got_bytes": format!("{:02X?}", rec.out)}),
                    );
                }
            },
        }
    }
}

pub fn main(ctx: &Ctx) -> ! {
    let acc = Acc { evals: AtomicU64::new(0), strings: AtomicU64::new(0), outcomes: Mutex::new(BTreeSet::new()) };
    // 1. Utf8LossyDecoder: all byte strings over the boundary alphabet
    let maxlen = ctx.tier.pick(5, 6);
    let prefixes = enumerate_strings(&UTF8_ALPHABET, 2);
    let suffixes = enumerate_strings(&UTF8_ALPHABET, maxlen - 2);
    prefixes.par_iter().for_each(|p| {
        let mut local = BTreeSet::new();
        if p.len() < 2 {
            utf8_case(ctx, &acc, p, &mut local);
        } else {
            for s in &suffixes {
                let mut b = p.clone();
                b.extend_from_slice(s);
                utf8_case(ctx, &acc, &b, &mut local);
            }
        }
        acc.outcomes.lock().unwrap().extend(local);
    });
    // every byte value: all strings of length <= 2 over all 256 bytes (and length 3 in thorough), all chunkings
    {
        let all: Vec<u8> = (0u8..=255).collect();
        let two = ctx.tier == Tier::Thorough;
        all.par_iter().for_each(|&a| {
            let mut local = BTreeSet::new();
            utf8_case(ctx, &acc, &[a], &mut local);
            for &b in &all {
                utf8_case(ctx, &acc, &[a, b], &mut local);
                if two || matches!(a, 0xC2 | 0xE0 | 0xED | 0xF0 | 0xF4) {
                    for &c in &all {
                        utf8_case(ctx, &acc, &[a, b, c], &mut local);
                    }
                }
            }
            acc.outcomes.lock().unwrap().extend(local);
        });
    }
    // long inputs: valid prefix of 100 bytes then every alphabet string of length <= 3 (buffer paths)
    let tails = enumerate_strings(&UTF8_ALPHABET, 3);
    tails.par_iter().for_each(|t| {
        let mut local = BTreeSet::new();
        let mut b = "h\u{e9}llo w\u{20ac}rld \u{1F600}".repeat(6).into_bytes();
        b.extend_from_slice(t);
        let want = String::from_utf8_lossy(&b).to_string();
        for cut in [1usize, b.len() - t.len() - 1, b.len() - t.len(), b.len() - 1] {
            let cut = cut.min(b.len().saturating_sub(1)).max(1);
            acc.evals.fetch_add(1, Ordering::Relaxed);
            let mut d = Utf8LossyDecoder::new(Rec::default());
            d.process(ByteTendril::from_slice(&b[..cut]));
            d.process(ByteTendril::from_slice(&b[cut..]));
            let rec = d.finish();
            if rec.out != want.as_bytes() || rec.invalid_piece || rec.errors != want.matches('\u{fffd}').count() {
                ctx.violation("decoded-text", &format!("utf8-long tail={t:02X?} cut={cut}"), json!({"want": want, "got": String::from_utf8_lossy(&rec.out)}));
            }
        }
        local.insert(digest(&want));
        acc.outcomes.lock().unwrap().extend(local);
    });
    // 2. from_utf8() parse == parse of the lossy string (html5ever and xml5ever)
    let tree_alpha: [u8; 12] = [0x41, 0x3C, 0x3E, 0x2F, 0xC3, 0xA9, 0xE2, 0x82, 0xF0, 0x9F, 0xFF, 0x80];
    let tl = ctx.tier.pick(4, 5);
    let ts = enumerate_strings(&tree_alpha, tl);
    ts.par_iter().for_each(|b| {
        let lossy = String::from_utf8_lossy(b).to_string();
        let nrep = lossy.matches('\u{fffd}').count();
        let want = format!("{}|errors={}", tree_of_str_html(&lossy), nrep);
        let wantx = tree_of_str_xml(&lossy);
        for mask in 0..chunk_masks(b.len()) {
            acc.evals.fetch_add(2, Ordering::Relaxed);
            match tree_of_bytes_html(b, mask) {
                Ok(got) => {
                    if got != want {
                        ctx.violation("from_utf8-tree", &witness("html-from_utf8", b, mask, None), json!({"want": want, "got": got}));
                    }
                },
                Err(p) => {
                    ctx.violation("panic", &witness("html-from_utf8", b, mask, None), json!({"panic": p}));
                },
            }
            match tree_of_bytes_xml(b, mask) {
                Ok(got) => {
                    if got != wantx {
                        ctx.violation("from_utf8-tree", &witness("xml-from_utf8", b, mask, None), json!({"want": wantx, "got": got}));
                    }
                },
                Err(p) => {
                    ctx.violation("panic", &witness("xml-from_utf8", b, mask, None), json!({"panic": p}));
                },
            }
        }
    });
    // 3. encoding_rs LossyDecoder
    let el = ctx.tier.pick(4, 5);
    let encs = all_encodings();
    encs.par_iter().for_each(|enc| {
        let mut local = BTreeSet::new();
        let alpha = encoding_alphabet(enc.name());
        let l = if alpha.len() > 9 { el.min(4).max(if ctx.tier == Tier::Thorough { 5 } else { 4 }) } else { el };
        for b in enumerate_strings(&alpha, l) {
            enc_case(ctx, &acc, enc, &b, &mut local);
        }
        // BOM prefixes followed by short strings
        for bom in [&[0xEFu8, 0xBB, 0xBF][..], &[0xFF, 0xFE][..], &[0xFE, 0xFF][..]] {
            for s in enumerate_strings(&alpha[..alpha.len().min(4)], 3) {
                let mut b = bom.to_vec();
                b.extend_from_slice(&s);
                enc_case(ctx, &acc, enc, &b, &mut local);
            }
        }
        acc.outcomes.lock().unwrap().extend(local);
    });
    // UTF-8 through LossyDecoder::utf8 / new_encoding_rs(UTF_8)
    for b in enumerate_strings(&UTF8_ALPHABET, 3) {
        let want = String::from_utf8_lossy(&b);
        for mask in 0..chunk_masks(b.len()) {
            acc.evals.fetch_add(1, Ordering::Relaxed);
            let rec = feed_chunks(LossyDecoder::new_encoding_rs(encoding_rs::UTF_8, Rec::default()), &b, mask, None);
            if rec.out != want.as_bytes() {
                ctx.violation("decoded-text", &witness("LossyDecoder-UTF-8", &b, mask, None), json!({"want": want, "got": String::from_utf8_lossy(&rec.out)}));
            }
        }
    }
    ctx.assume("UTF-8 alphabet {41,80,BF,C0,C2,DF,E0,A0,9F,ED,EF,F0,90,8F,F4,F5,FF}: every lead/continuation class of the UTF-8 table; oracle String::from_utf8_lossy (std)");
    ctx.assume("encoding_rs: 39 encodings with per-family byte alphabets of 3-11 bytes (ASCII, lead, trail, invalid trail, ESC sequences, surrogate halves, BOMs); oracle Encoding::decode (one shot) - encoding_rs itself is the trusted base");
    ctx.finish(
        "exploration",
        json!({
            "evaluations": acc.evals.load(Ordering::Relaxed),
            "distinct_nontrivial": acc.outcomes.lock().unwrap().len(),
            "byte_strings": acc.strings.load(Ordering::Relaxed),
            "rule": format!("all byte strings of length <= {maxlen} over the UTF-8 boundary alphabet x all 2^(n-1) chunkings (+ an empty chunk at every position of every 2-chunk split): concatenated output == from_utf8_lossy, #errors == #U+FFFD, every piece valid UTF-8; from_utf8() parse tree == tree of the lossy string for all strings <= {tl} over a 12-byte markup alphabet (html5ever and xml5ever); every encoding_rs encoding over its family alphabet up to length {el}, all chunkings, vs one-shot decode. distinct_nontrivial = distinct expected decodings."),
            "exhaustive": true,
            "samples": ["utf8 chunks=[E0 | A0 | 41]", "utf8 chunks=[F0 90 | 8F]", "Shift_JIS chunks=[81 | 40]", "UTF-16LE chunks=[00 D8 | 00 DC]"],
        }),
    )
}

pub fn replay(ctx: &Ctx, v: &serde_json::Value) {
    let w = v["witness"].as_str().unwrap_or("");
    // "<kind> chunks=[AA BB | CC] empty_at=.."
    let kind = w.split(' ').next().unwrap_or("");
    let i = w.find("chunks=[").unwrap() + 8;
    let j = w[i..].find(']').unwrap() + i;
    let mut bytes = vec![];
    let mut mask = 0u32;
    for (k, part) in w[i..j].split(" | ").enumerate() {
        if k > 0 && !bytes.is_empty() {
            mask |= 1 << (bytes.len() - 1);
        }
        let hex: Vec<char> = part.chars().filter(|c| c.is_ascii_hexdigit()).collect();
        for p in hex.chunks(2) {
            bytes.push(u8::from_str_radix(&p.iter().collect::<String>(), 16).unwrap());
        }
    }
    let acc = Acc { evals: AtomicU64::new(0), strings: AtomicU64::new(0), outcomes: Mutex::new(BTreeSet::new()) };
    let mut local = BTreeSet::new();
    if kind == "utf8" {
        utf8_case(ctx, &acc, &bytes, &mut local);
    } else if let Some(enc) = all_encodings().into_iter().find(|e| e.name() == kind) {
        enc_case(ctx, &acc, enc, &bytes, &mut local);
    } else {
        println!("(tree-level replay) html: {:?}", tree_of_bytes_html(&bytes, mask));
    }
    println!("replay: {}", if ctx.violations() == 0 { "passes" } else { "FAILS" });
}
