//! Harness around the real HTML tokenizer: recording sink with a switch
//! policy, chunked driver with script pauses / injections, canonical output.
use crate::rtok::{self, Emitted, RToken, Switch, S};
use html5ever::tokenizer::states::{self as st, RawKind};
use html5ever::tokenizer::{
    BufferQueue, Token, TokenSink, TokenSinkResult, Tokenizer, TokenizerOpts,
};
use markup5ever::TokenizerResult;
use std::cell::{Cell, RefCell};
use tendril::StrTendril;

#[derive(Clone, Debug, PartialEq, Eq, Hash)]
pub enum Item {
    Doctype {
        name: Option<String>,
        public: Option<String>,
        system: Option<String>,
        force_quirks: bool,
    },
    Tag {
        end: bool,
        name: String,
        attrs: Vec<(String, String)>,
        self_closing: bool,
        dup: bool,
    },
    Comment(String),
    Text(String),
    Null,
    Eof,
}

/// tag-name -> tokenizer switch, shared by the recording sink and R-tok
pub fn policy(name: &str) -> Option<Switch> {
    match name {
        "t" | "title" | "textarea" => Some(Switch::Rcdata),
        "r" | "style" | "xmp" | "iframe" | "noembed" | "noframes" => Some(Switch::Rawtext),
        "script" => Some(Switch::ScriptData),
        "pt" | "plaintext" => Some(Switch::Plaintext),
        _ => None,
    }
}

#[derive(Clone, Debug)]
pub struct Raw {
    pub tok: RawTok,
    pub line: u64,
}
#[derive(Clone, Debug, PartialEq)]
pub enum RawTok {
    Item(Item),
    Error(String),
}

pub struct RecSink {
    pub toks: RefCell<Vec<Raw>>,
    pub cdata: bool,
    pub script_pause: bool,
    pub use_policy: bool,
    pub eofs: Cell<u32>,
    pub after_eof: Cell<u32>,
}

impl RecSink {
    pub fn new(cdata: bool, script_pause: bool) -> RecSink {
        RecSink {
            toks: RefCell::new(vec![]),
            cdata,
            script_pause,
            use_policy: true,
            eofs: Cell::new(0),
            after_eof: Cell::new(0),
        }
    }
}

impl TokenSink for RecSink {
    type Handle = ();
    fn process_token(&self, token: Token, line: u64) -> TokenSinkResult<()> {
        if self.eofs.get() > 0 {
            self.after_eof.set(self.after_eof.get() + 1);
        }
        let mut res = TokenSinkResult::Continue;
        let t = match token {
            Token::DoctypeToken(d) => RawTok::Item(Item::Doctype {
                name: d.name.map(|s| s.to_string()),
                public: d.public_id.map(|s| s.to_string()),
                system: d.system_id.map(|s| s.to_string()),
                force_quirks: d.force_quirks,
            }),
            Token::TagToken(t) => {
                let end = t.kind == html5ever::tokenizer::EndTag;
                let name = t.name.to_string();
                if self.use_policy {
                    if !end {
                        res = match policy(&name) {
                            Some(Switch::Rcdata) => TokenSinkResult::RawData(RawKind::Rcdata),
                            Some(Switch::Rawtext) => TokenSinkResult::RawData(RawKind::Rawtext),
                            Some(Switch::ScriptData) => TokenSinkResult::RawData(RawKind::ScriptData),
                            Some(Switch::Plaintext) => TokenSinkResult::Plaintext,
                            None => TokenSinkResult::Continue,
                        };
                    } else if self.script_pause && name == "script" {
                        res = TokenSinkResult::Script(());
                    }
                }
                RawTok::Item(Item::Tag {
                    end,
                    name,
                    attrs: t.attrs.iter().map(|a| (a.name.local.to_string(), a.value.to_string())).collect(),
                    self_closing: t.self_closing,
                    dup: t.had_duplicate_attributes,
                })
            },
            Token::CommentToken(c) => RawTok::Item(Item::Comment(c.to_string())),
            Token::CharacterTokens(c) => RawTok::Item(Item::Text(c.to_string())),
            Token::NullCharacterToken => RawTok::Item(Item::Null),
            Token::EOFToken => {
                self.eofs.set(self.eofs.get() + 1);
                RawTok::Item(Item::Eof)
            },
            Token::ParseError(e) => RawTok::Error(e.to_string()),
        };
        self.toks.borrow_mut().push(Raw { tok: t, line });
        res
    }
    fn adjusted_current_node_present_but_not_in_html_namespace(&self) -> bool {
        self.cdata
    }
}

#[derive(Clone, Debug, PartialEq, Eq, Hash)]
pub struct TokCfg {
    pub start: u8, // index into START_STATES
    pub last_start_tag: Option<&'static str>,
    pub cdata: bool,
    pub exact_errors: bool,
    pub discard_bom: bool,
    pub profile: bool,
    pub script_pause: bool,
}
impl Default for TokCfg {
    fn default() -> Self {
        TokCfg {
            start: 0,
            last_start_tag: None,
            cdata: false,
            exact_errors: false,
            discard_bom: true,
            profile: false,
            script_pause: false,
        }
    }
}

pub const START_STATES: [&str; 6] = ["Data", "Plaintext", "Rcdata", "Rawtext", "ScriptData", "CdataSection"];
pub fn start_state(i: u8) -> (Option<st::State>, S) {
    match i {
        0 => (None, S::Data),
        1 => (Some(st::Plaintext), S::Plaintext),
        2 => (Some(st::RawData(st::Rcdata)), S::Rcdata),
        3 => (Some(st::RawData(st::Rawtext)), S::Rawtext),
        4 => (Some(st::RawData(st::ScriptData)), S::ScriptData),
        5 => (Some(st::CdataSection), S::CdataSection),
        _ => unreachable!(),
    }
}

/// One step of a feed schedule.
#[derive(Clone, Debug, PartialEq, Eq, Hash)]
pub enum Feed {
    Chunk(String),
    /// an empty push_back + feed
    Empty,
}

#[derive(Clone, Debug, Default)]
pub struct Out {
    /// canonical items (adjacent text merged); line = line delivered with the last piece
    pub items: Vec<(Item, u64)>,
    /// parse errors with their position among canonical items
    pub errors: Vec<(String, usize)>,
    /// every delivered character piece: (cumulative number of characters delivered, line)
    pub pieces: Vec<(usize, u64)>,
    /// TokenizerResult of every feed() call, in order
    pub results: Vec<&'static str>,
    /// contract problems noticed by the driver (C04)
    pub problems: Vec<String>,
    pub dump: Option<html5ever::tokenizer::verif::VerifTok>,
    /// unread queue content after the last feed
    pub queue_left: String,
}

pub fn canon(raw: &[Raw]) -> (Vec<(Item, u64)>, Vec<(String, usize)>, Vec<(usize, u64)>) {
    let mut items: Vec<(Item, u64)> = vec![];
    let mut errors = vec![];
    let mut pieces = vec![];
    let mut nchars = 0usize;
    for r in raw {
        match &r.tok {
            RawTok::Error(e) => errors.push((e.clone(), items.len())),
            // an empty character token carries no character data (the property
            // compares the concatenation of adjacent character tokens)
            RawTok::Item(Item::Text(t)) if t.is_empty() => {},
            RawTok::Item(Item::Text(t)) => {
                nchars += t.chars().count();
                pieces.push((nchars, r.line));
                if let Some((Item::Text(prev), l)) = items.last_mut() {
                    prev.push_str(t);
                    *l = r.line;
                } else {
                    items.push((Item::Text(t.clone()), r.line));
                }
            },
            RawTok::Item(Item::Null) => {
                nchars += 1;
                pieces.push((nchars, r.line));
                items.push((Item::Null, r.line));
            },
            RawTok::Item(i) => items.push((i.clone(), r.line)),
        }
    }
    (items, errors, pieces)
}

pub struct Injection {
    /// at the k-th script pause (0-based) push this text to the front of the input
    pub at_pause: usize,
    pub text: String,
}

/// Drive the real tokenizer through a schedule. `end` = call end() afterwards.
pub fn run_real(cfg: &TokCfg, sched: &[Feed], inj: &[Injection], end: bool, want_dump: bool) -> Out {
    let _watch = crate::common::watch(|w| w.push_str(&crate::c01::witness(cfg, sched)));
    let sink = RecSink::new(cfg.cdata, cfg.script_pause);
    let opts = TokenizerOpts {
        exact_errors: cfg.exact_errors,
        discard_bom: cfg.discard_bom,
        profile: cfg.profile,
        initial_state: start_state(cfg.start).0,
        last_start_tag_name: cfg.last_start_tag.map(|s| s.to_string()),
    };
    let tok = Tokenizer::new(sink, opts);
    let q = BufferQueue::default();
    let mut out = Out::default();
    let mut pauses = 0usize;
    for f in sched {
        match f {
            Feed::Chunk(s) => q.push_back(StrTendril::from_slice(s)),
            Feed::Empty => q.push_back(StrTendril::new()),
        }
        let mut guard = 0;
        loop {
            guard += 1;
            if guard > 100_000 {
                out.problems.push("feed loop does not terminate".into());
                break;
            }
            match tok.feed(&q) {
                TokenizerResult::Done => {
                    out.results.push("Done");
                    if !q.is_empty() {
                        out.problems.push("feed returned Done with a non-empty queue".into());
                    }
                    break;
                },
                TokenizerResult::Script(()) => {
                    out.results.push("Script");
                    for i in inj {
                        if i.at_pause == pauses {
                            q.push_front(StrTendril::from_slice(&i.text));
                        }
                    }
                    pauses += 1;
                    if q.is_empty() {
                        break;
                    }
                },
                TokenizerResult::EncodingIndicator(_) => {
                    out.results.push("EncodingIndicator");
                    if q.is_empty() {
                        break;
                    }
                },
            }
        }
    }
    if want_dump {
        out.dump = Some(tok.verif_dump());
        let c = q.clone();
        while let Some(t) = c.pop_front() {
            out.queue_left.push_str(&t);
        }
    }
    if end {
        tok.end();
        if tok.sink.eofs.get() != 1 {
            out.problems.push(format!("{} EOF tokens delivered", tok.sink.eofs.get()));
        }
        if tok.sink.after_eof.get() != 0 {
            out.problems.push("tokens delivered after EOF".into());
        }
    }
    let raw = tok.sink.toks.borrow();
    let (items, errors, pieces) = canon(&raw);
    out.items = items;
    out.errors = errors;
    out.pieces = pieces;
    out
}

/// R-tok output in the same canonical form; lines from consumed counts.
pub struct RefOut {
    pub items: Vec<(Item, u64)>,
    /// per emitted character: consumed count at emission
    pub char_pos: Vec<usize>,
    pub norm: Vec<char>,
}

pub fn line_at(norm: &[char], pos: usize) -> u64 {
    1 + norm[..pos.min(norm.len())].iter().filter(|c| **c == '\n').count() as u64
}

pub fn canon_ref(norm: Vec<char>, em: &[Emitted]) -> RefOut {
    let mut items: Vec<(Item, u64)> = vec![];
    let mut char_pos = vec![];
    for e in em {
        let line = line_at(&norm, e.pos);
        match &e.tok {
            RToken::Char('\0') => {
                char_pos.push(e.pos);
                items.push((Item::Null, line));
            },
            RToken::Char(c) => {
                char_pos.push(e.pos);
                if let Some((Item::Text(prev), l)) = items.last_mut() {
                    prev.push(*c);
                    *l = line;
                } else {
                    items.push((Item::Text(c.to_string()), line));
                }
            },
            RToken::Doctype { name, public, system, force_quirks } => items.push((
                Item::Doctype {
                    name: name.clone(),
                    public: public.clone(),
                    system: system.clone(),
                    force_quirks: *force_quirks,
                },
                line,
            )),
            RToken::Tag { end, name, attrs, self_closing, dup } => items.push((
                Item::Tag {
                    end: *end,
                    name: name.clone(),
                    attrs: attrs.clone(),
                    self_closing: *self_closing,
                    dup: *dup,
                },
                line,
            )),
            RToken::Comment(c) => items.push((Item::Comment(c.clone()), line)),
            RToken::Eof => items.push((Item::Eof, line)),
        }
    }
    RefOut { items, char_pos, norm }
}

/// Reference run of a complete input under the same configuration.
pub fn run_ref(cfg: &TokCfg, input: &str) -> RefOut {
    let s = if cfg.discard_bom { input.strip_prefix('\u{feff}').unwrap_or(input) } else { input };
    let rc = rtok::Cfg {
        start: start_state(cfg.start).1,
        last_start_tag: cfg.last_start_tag.map(|s| s.to_string()),
        cdata_allowed: std::rc::Rc::new(std::cell::Cell::new(cfg.cdata)),
        switch: policy,
        _m: std::marker::PhantomData,
    };
    let em = rtok::RTok::run_all(rc, s);
    canon_ref(rtok::normalize(s), &em)
}

pub fn ref_ctl_key(cfg: &TokCfg, input: &str) -> String {
    ref_state(cfg, input).0
}

/// (control key, last start tag name) of the reference after `input`
pub fn ref_state(cfg: &TokCfg, input: &str) -> (String, Option<String>) {
    let s = if cfg.discard_bom { input.strip_prefix('\u{feff}').unwrap_or(input) } else { input };
    let rc = rtok::Cfg {
        start: start_state(cfg.start).1,
        last_start_tag: cfg.last_start_tag.map(|s| s.to_string()),
        cdata_allowed: std::rc::Rc::new(std::cell::Cell::new(cfg.cdata)),
        switch: policy,
        _m: std::marker::PhantomData,
    };
    let r = rtok::RTok::run_partial(rc, s);
    // the reference pre-processes its input stream (CR LF -> LF); a trailing CR is the one piece of
    // pre-processor state that is not visible in the tokenizer state proper, and it must be part of the
    // product key: otherwise "\r" and "\rx" merge whenever the implementation state happens to coincide
    (format!("{}|cr={}", r.ctl_key(), s.ends_with('\r')), r.last_start_tag.clone())
}

/// Compare a real run (with end) against the reference. Returns (kind, message).
pub fn compare(real: &Out, r: &RefOut, check_lines: bool) -> Option<(String, String)> {
    if let Some(p) = real.problems.first() {
        return Some(("contract".into(), p.clone()));
    }
    let ri: Vec<&Item> = real.items.iter().map(|x| &x.0).collect();
    let mi: Vec<&Item> = r.items.iter().map(|x| &x.0).collect();
    if ri != mi {
        let k = ri.iter().zip(mi.iter()).position(|(a, b)| a != b).unwrap_or(ri.len().min(mi.len()));
        return Some((
            "tokens".into(),
            format!("token #{k}: real {:?} / spec {:?}", ri.get(k), mi.get(k)),
        ));
    }
    if check_lines {
        // non-character tokens and EOF: exact
        for (k, ((it, l), (_, ml))) in real.items.iter().zip(r.items.iter()).enumerate() {
            if !matches!(it, Item::Text(_) | Item::Null) && l != ml {
                return Some(("line".into(), format!("token #{k} {it:?}: line {l}, expected {ml}")));
            }
        }
        // character pieces: line within one character of look-ahead of the spec position
        let mut prev = 0u64;
        for (n, l) in &real.pieces {
            let pos = r.char_pos[*n - 1];
            let hi = line_at(&r.norm, pos);
            let lo = line_at(&r.norm, pos.saturating_sub(1));
            if *l < lo || *l > hi {
                return Some(("line".into(), format!("character piece ending at char #{n}: line {l}, expected {lo}..={hi}")));
            }
            if *l < prev {
                return Some(("line".into(), format!("line numbers decrease at char #{n}")));
            }
            prev = *l;
        }
    }
    None
}
