//! Whole-table sweeps for the E2 properties: every entry (and near miss) of the lookup tables the
//! tree builder consults — DOCTYPE quirks identifiers, SVG tag / attribute fix-ups, foreign
//! attributes, break-out tags — and every element name in a set of context templates that expose
//! membership in the special / scope / implied-end-tag / formatting lists.
use crate::common::*;
use crate::e2::{judge, witness, Prop, Stats, ALL_NAMES};
use crate::rtree::{BREAKOUT, QUIRKY_PUBLIC_PREFIXES, SVG_ATTR_FIXUPS, SVG_TAG_FIXUPS};
use crate::tokh::Feed;
use crate::treeh::*;
use rayon::prelude::*;
use serde_json::json;
use std::sync::atomic::Ordering;

fn variants(p: &str) -> Vec<String> {
    let mut v = vec![p.to_string(), format!("{p}x"), p.to_uppercase(), format!("x{p}")];
    if p.len() > 1 {
        v.push(p[..p.len() - 1].to_string());
    }
    // mixed case: upper-case every other letter
    v.push(p.chars().enumerate().map(|(i, c)| if i % 2 == 0 { c.to_ascii_uppercase() } else { c }).collect());
    v
}

pub fn doctype_inputs() -> Vec<String> {
    let mut publics: Vec<Option<String>> = vec![None, Some(String::new())];
    for p in QUIRKY_PUBLIC_PREFIXES {
        publics.extend(variants(p).into_iter().map(Some));
    }
    for p in [
        "-//w3o//dtd w3 html strict 3.0//en//",
        "-/w3c/dtd html 4.0 transitional/en",
        "html",
        "-//w3c//dtd xhtml 1.0 frameset//",
        "-//w3c//dtd xhtml 1.0 transitional//",
        "-//w3c//dtd html 4.01 frameset//",
        "-//w3c//dtd html 4.01 transitional//",
        "-//w3c//dtd html 4.01//",
        "-//w3c//dtd xhtml 1.0 strict//",
        "-//w3c//dtd xhtml 1.1//",
    ] {
        publics.extend(variants(p).into_iter().map(Some));
        publics.push(Some(format!("{p}en")));
    }
    let ibm = "http://www.ibm.com/data/dtd/v11/ibmxhtml1-transitional.dtd";
    let systems: Vec<Option<String>> =
        vec![None, Some(String::new()), Some("x".into()), Some(ibm.into()), Some(ibm.to_uppercase()), Some(format!("{ibm}x")), Some("about:legacy-compat".into())];
    let mut v = vec![];
    for name in ["html", "HTML", "x", "htmlx"] {
        for p in &publics {
            for s in &systems {
                let ids = match (p, s) {
                    (None, None) => String::new(),
                    (Some(p), None) => format!(" PUBLIC \"{p}\""),
                    (Some(p), Some(s)) => format!(" PUBLIC \"{p}\" \"{s}\""),
                    (None, Some(s)) => format!(" SYSTEM \"{s}\""),
                };
                if name != "html" && p.as_ref().map(|p| p.len() > 8).unwrap_or(false) && s.is_some() {
                    continue; // the name alone decides; keep a few
                }
                v.push(format!("<!DOCTYPE {name}{ids}><p><table>x"));
            }
        }
    }
    for odd in [
        "<!DOCTYPE><p><table>x", "<!DOCTYPE ><p><table>", "<!DOCTYPE html PUBLIC><p><table>", "<!DOCTYPE html SYSTEM><p><table>", "<!DOCTYPE html PUBLIC \"x><p><table>",
        "<!DOCTYPE html bogus><p><table>", "<!DOCTYPE html PUBLIC \"\" \"\" x><p><table>", "<!DOCTYPE html SYSTEM \"x\" y><p><table>", "<!doctype HTML public 'HTML'><p><table>",
        "<!-- c --><!DOCTYPE html PUBLIC \"html\"><p><table>", " <!DOCTYPE x><p><table>", "<p><table>", "x", "",
    ] {
        v.push(odd.to_string());
    }
    v
}

pub fn foreign_inputs() -> Vec<String> {
    let mut v = vec![];
    let mut tags: Vec<String> = SVG_TAG_FIXUPS.iter().flat_map(|(l, f)| [l.to_string(), f.to_string(), l.to_uppercase(), format!("{l}x"), l[..l.len() - 1].to_string()]).collect();
    tags.extend(ALL_NAMES.iter().map(|s| s.to_string()));
    tags.extend(BREAKOUT.iter().map(|s| s.to_string()));
    tags.extend(["font", "title", "script", "style", "textarea", "a", "image", "svg", "math", "annotation-xml", "mglyph", "malignmark", "desc", "foreignObject"].map(String::from));
    tags.sort();
    tags.dedup();
    for t in &tags {
        for tpl in [
            "<svg><@>x</@>y</svg>z", "<svg><g><@>x", "<math><@>x</@>y", "<math><mi><@>x", "<math><annotation-xml><@>x", "<svg><desc><@>x", "<svg><foreignObject><@>x</@>y",
            "<svg></@>x", "<svg><g></@>x", "<math><mi></@>x", "<div><@>x", "<svg><@/>x", "<math><mtext><@/>x", "<svg><title><@>x",
            "<math><annotation-xml encoding=text/html><@>x", "<math><annotation-xml encoding='APPLICATION/XHTML+XML'><@>x", "<math><annotation-xml encoding=text/htmlx><@>x",
            "<table><svg><@>x", "<svg><@><p>x", "<svg><p><@>x",
        ] {
            v.push(tpl.replace('@', t));
        }
    }
    let mut attrs: Vec<String> = SVG_ATTR_FIXUPS.iter().flat_map(|(l, f)| [l.to_string(), f.to_string(), format!("{l}x"), l[..l.len() - 1].to_string()]).collect();
    for a in [
        "definitionurl", "definitionURL", "xlink:actuate", "xlink:arcrole", "xlink:href", "xlink:role", "xlink:show", "xlink:title", "xlink:type", "xlink:foo", "xlink:", "xlink",
        "xml:lang", "xml:space", "xml:base", "xml:foo", "xmlns", "xmlns:xlink", "xmlns:foo", "xmlns:", "XLINK:HREF", "x:y", "id", "color", "face", "size", "encoding",
    ] {
        attrs.push(a.to_string());
    }
    attrs.sort();
    attrs.dedup();
    // every fix-up attribute on ONE tag: the adjusted names must stay pairwise distinct (attribute lists
    // without duplicates) and each must be the table's value
    let all_attrs: String = SVG_ATTR_FIXUPS.iter().enumerate().map(|(i, (l, _))| format!(" {l}={i}")).collect();
    for tpl in ["<svg@>x", "<svg><g@>x", "<svg><feConvolveMatrix@/>", "<math@>x", "<div@>x", "<svg><foreignObject><p@>x"] {
        v.push(tpl.replace('@', &all_attrs));
    }
    let all_foreign = " xlink:actuate=1 xlink:arcrole=2 xlink:href=3 xlink:role=4 xlink:show=5 xlink:title=6 xlink:type=7 xml:lang=8 xml:space=9 xmlns=a xmlns:xlink=b definitionurl=c href=d lang=e";
    for tpl in ["<svg@>x", "<math@>x", "<svg><a@>x", "<div@>x"] {
        v.push(tpl.replace('@', all_foreign));
    }
    for a in &attrs {
        for tpl in [
            "<svg @=1>x", "<svg><g @=1>x", "<math @=1>x", "<math><mi @=1>x", "<div @=1>x", "<svg><font @=1>x", "<svg><foreignObject><p @=1>x", "<svg @=1 @=2>x",
            "<body @=1><body @=2>", "<svg><desc><svg @=1>",
        ] {
            v.push(tpl.replace('@', a));
        }
    }
    v
}

pub fn name_context_inputs() -> Vec<String> {
    let mut names: Vec<String> = ALL_NAMES.iter().map(|s| s.to_string()).collect();
    names.extend(["bdo", "q", "ins", "acronym", "blink", "spacer", "multicol", "nextid", "isindex", "menuitem", "picture", "slot", "canvas", "audio", "data", "time", "mark", "wbr", "rb", "strike"].map(String::from));
    names.sort();
    names.dedup();
    let mut v = vec![];
    for n in &names {
        for tpl in [
            "<span><@>a</span>b", "<li><@><li>x", "<dd><@><dt>x", "<p><@><p>x", "<p><@></p>x", "<table><@>x", "<table><tr><td><@></td>x", "<table><tr><@>x", "<table><caption><@><caption>x",
            "<b><@>x</b>y", "<a><@><a>x", "<button><@><button>x", "<h1><@><h2>x", "<svg><@>x</svg>y", "<template><@>x", "<frameset><@>x", "<head><@>x", "</head><@>x", "<html><@>x",
            "<body></body><@>x", "</html><@>x", "<@><table><tr></@>x", "<@>\nx", "<@><@>x</@>y", "<ul><@></ul>x", "<div><@></div>x", "<nobr><@><nobr>x", "<@></br>x", "<form><@></form>x",
            "<b><i><@></b>x", "<ruby><@><rt>x", "<ruby><rtc><@><rp>x", "<option><@><option>x", "<@><li>x</@>y", "<p><@>x</p>y</@>z", "<colgroup><@>x", "<table><tbody><@>x",
            "<noscript><@>x", "<head><noscript><@>x", "<applet><@></applet>x", "<@><svg></@>x", "<@></@></@>x", "</@>x", "<table></@>x", "<body><@ x=1><@ y=2>",
        ] {
            v.push(tpl.replace('@', n));
        }
    }
    v
}

/// Run every input (document parse, scripting on and off; doctype inputs also as iframe-srcdoc
/// documents) through the property's oracle.
pub fn run(ctx: &Ctx, prop: Prop, stats: &Stats) -> serde_json::Value {
    let full = prop != Prop::C02;
    let dts = doctype_inputs();
    let fgn = foreign_inputs();
    let ctxs: Vec<String> = name_context_inputs().into_iter().filter(|s| full || !select_family(s)).collect();
    let mut work: Vec<(TreeCfg, &String)> = vec![];
    for d in &dts {
        work.push((TreeCfg::default(), d));
        work.push((TreeCfg { iframe_srcdoc: true, ..Default::default() }, d));
    }
    for s in fgn.iter().filter(|s| full || !select_family(s)).chain(ctxs.iter()) {
        work.push((TreeCfg::default(), s));
        work.push((TreeCfg { scripting: false, ..Default::default() }, s));
    }
    let mut env = Env::default();
    env.invariants = prop == Prop::C04;
    env.gc = prop == Prop::C18;
    work.par_iter().for_each(|(cfg, input)| {
        let mut cfg = cfg.clone();
        cfg.with_rcdom = prop == Prop::C20 || prop == Prop::C06;
        let sched = vec![Feed::Chunk(input.to_string())];
        let r = guarded(|| run_tree(&cfg, &sched, &env, true));
        stats.execs.fetch_add(1, Ordering::Relaxed);
        if let Some((kind, msg)) = judge(prop, &cfg, &r) {
            ctx.violation(&kind, &witness(&cfg, &sched, &env), json!({"message": msg, "job": "table-sweep", "input": input}));
            return;
        }
        if prop == Prop::C02 {
            if let Ok(o) = &r {
                if let Some((kind, msg)) = crate::c02::compare(&cfg, input, o) {
                    ctx.violation(&kind, &witness(&cfg, &sched, &env), json!({"message": msg, "job": "table-sweep", "input": input}));
                }
            }
        }
    });
    json!({"doctype_inputs": dts.len(), "foreign_inputs": fgn.len(), "name_context_inputs": ctxs.len(), "executions": work.len()})
}

fn select_family(s: &str) -> bool {
    ["select", "option", "optgroup", "selectedcontent", "hr", "keygen", "isindex", "search", "dialog", "datalist"].iter().any(|n| {
        s.contains(&format!("<{n}>")) || s.contains(&format!("<{n} ")) || s.contains(&format!("</{n}>")) || s.contains(&format!("<{n}/>"))
    })
}
