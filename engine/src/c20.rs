//! C20: RcDom faithfulness. (a) parser-driven via the tee in MSink (see e2.rs);
//! (b) direct operation sequences on RcDom vs the abstract DOM.
use crate::bfs::*;
use crate::common::*;
use crate::dom::*;
use html5ever::serialize::{Serialize, Serializer, TraversalScope};
use html5ever::QualName;
use markup5ever_rcdom::{RcDom, SerializableHandle};
use serde_json::json;
use std::io;

struct Rec {
    ev: Vec<String>,
}
impl Serializer for Rec {
    fn start_elem<'a, A: Iterator<Item = (&'a QualName, &'a str)>>(&mut self, name: QualName, attrs: A) -> io::Result<()> {
        let a: Vec<String> = attrs.map(|(n, v)| format!("{}={v:?}", n.local)).collect();
        self.ev.push(format!("<{}:{} {}>", name.ns, name.local, a.join(" ")));
        Ok(())
    }
    fn end_elem(&mut self, name: QualName) -> io::Result<()> {
        self.ev.push(format!("</{}:{}>", name.ns, name.local));
        Ok(())
    }
    fn write_text(&mut self, text: &str) -> io::Result<()> {
        self.ev.push(format!("T{text:?}"));
        Ok(())
    }
    fn write_comment(&mut self, text: &str) -> io::Result<()> {
        self.ev.push(format!("C{text:?}"));
        Ok(())
    }
    fn write_doctype(&mut self, name: &str) -> io::Result<()> {
        self.ev.push(format!("D{name:?}"));
        Ok(())
    }
    fn write_processing_instruction(&mut self, target: &str, data: &str) -> io::Result<()> {
        self.ev.push(format!("P{target:?} {data:?}"));
        Ok(())
    }
}

fn model_events(d: &Dom, n: usize, out: &mut Vec<String>) {
    match &d.nodes[n].kind {
        Kind::Element { ns, local, attrs, .. } => {
            let a: Vec<String> = attrs.iter().map(|a| format!("{}={:?}", a.local, a.value)).collect();
            out.push(format!("<{ns}:{local} {}>", a.join(" ")));
            for &c in &d.nodes[n].children {
                model_events(d, c, out);
            }
            out.push(format!("</{ns}:{local}>"));
        },
        Kind::Text(t) => out.push(format!("T{t:?}")),
        Kind::Comment(t) => out.push(format!("C{t:?}")),
        Kind::Doctype { name, .. } => out.push(format!("D{name:?}")),
        Kind::Pi { target, data } => out.push(format!("P{target:?} {data:?}")),
        Kind::Document | Kind::Fragment => {
            for &c in &d.nodes[n].children {
                model_events(d, c, out);
            }
        },
    }
}

/// serializing the RcDom visits each node exactly once in document order
pub fn serialize_visit_check(d: &Dom, rc: &RcDom) -> Option<String> {
    let mut want = vec![];
    model_events(d, 0, &mut want);
    let mut rec = Rec { ev: vec![] };
    let h: SerializableHandle = rc.document.clone().into();
    if let Err(e) = h.serialize(&mut rec, TraversalScope::ChildrenOnly(None)) {
        return Some(format!("serialize failed: {e}"));
    }
    if rec.ev != want {
        let k = rec.ev.iter().zip(want.iter()).position(|(a, b)| a != b).unwrap_or(rec.ev.len().min(want.len()));
        return Some(format!("event #{k}: rcdom {:?} model {:?}", rec.ev.get(k), want.get(k)));
    }
    None
}

/// nodes outside the document: a parentless node has no parent link; an attached
/// one names the node whose child list contains it
pub fn detached_links_check(sink: &MSink) -> Option<String> {
    let d = sink.dom.borrow();
    for (i, n) in d.nodes.iter().enumerate() {
        if !n.by_sink || i == 0 {
            continue;
        }
        let Some(h) = sink.rc_handle_of(i) else { continue };
        let p = h.parent.take();
        let up = p.as_ref().and_then(|w| w.upgrade());
        h.parent.set(p);
        match (n.parent, up) {
            (None, None) => {},
            (None, Some(_)) => {
                if n.host.is_none() {
                    return Some(format!("node #{i} is in no child list but its RcDom parent link is set"));
                }
            },
            (Some(mp), Some(rp)) => {
                let want = sink.rc_handle_of(mp);
                if let Some(w) = want {
                    if !std::rc::Rc::ptr_eq(&w, &rp) {
                        return Some(format!("node #{i}: RcDom parent link names a different node than the model parent #{mp}"));
                    }
                    if !rp.children.borrow().iter().any(|c| std::rc::Rc::ptr_eq(c, &h)) {
                        return Some(format!("node #{i}: parent's child list does not contain it"));
                    }
                }
            },
            (Some(mp), None) => return Some(format!("node #{i} has model parent #{mp} but no RcDom parent link")),
        }
    }
    None
}

pub fn main(ctx: &Ctx) -> ! {
    let _ = (json!(0), BfsCfg { max_depth: 0, max_states: 0, max_secs: 0.0 });
    crate::e2::main(ctx, crate::e2::Prop::C20)
}
