//! C20: RcDom faithfulness. (a) parser-driven via the tee in MSink (see e2.rs);
//! (b) direct operation sequences on RcDom vs the abstract DOM.
use crate::bfs::*;
use crate::common::*;
use crate::dom::*;
use html5ever::serialize::{Serialize, Serializer, TraversalScope};
use html5ever::QualName;
use markup5ever_rcdom::{RcDom, SerializableHandle};
use serde_json::json;
use std::io;

struct Rec {
    ev: Vec<String>,
}
impl Serializer for Rec {
    fn start_elem<'a, A: Iterator<Item = (&'a QualName, &'a str)>>(&mut self, name: QualName, attrs: A) -> io::Result<()> {
        let a: Vec<String> = attrs.map(|(n, v)| format!("{}={v:?}", n.local)).collect();
        self.ev.push(format!("<{}:{} {}>", name.ns, name.local, a.join(" ")));
        Ok(())
    }
    fn end_elem(&mut self, name: QualName) -> io::Result<()> {
        self.ev.push(format!("</{}:{}>", name.ns, name.local));
        Ok(())
    }
    fn write_text(&mut self, text: &str) -> io::Result<()> {
        self.ev.push(format!("T{text:?}"));
        Ok(())
    }
    fn write_comment(&mut self, text: &str) -> io::Result<()> {
        self.ev.push(format!("C{text:?}"));
        Ok(())
    }
    fn write_doctype(&mut self, name: &str) -> io::Result<()> {
        self.ev.push(format!("D{name:?}"));
        Ok(())
    }
    fn write_processing_instruction(&mut self, target: &str, data: &str) -> io::Result<()> {
        self.ev.push(format!("P{target:?} {data:?}"));
        Ok(())
    }
}

fn model_events(d: &Dom, n: usize, out: &mut Vec<String>) {
    match &d.nodes[n].kind {
        Kind::Element { ns, local, attrs, .. } => {
            let a: Vec<String> = attrs.iter().map(|a| format!("{}={:?}", a.local, a.value)).collect();
            out.push(format!("<{ns}:{local} {}>", a.join(" ")));
            for &c in &d.nodes[n].children {
                model_events(d, c, out);
            }
            out.push(format!("</{ns}:{local}>"));
        },
        Kind::Text(t) => out.push(format!("T{t:?}")),
        Kind::Comment(t) => out.push(format!("C{t:?}")),
        Kind::Doctype { name, .. } => out.push(format!("D{name:?}")),
        Kind::Pi { target, data } => out.push(format!("P{target:?} {data:?}")),
        Kind::Document | Kind::Fragment => {
            for &c in &d.nodes[n].children {
                model_events(d, c, out);
            }
        },
    }
}

/// serializing the RcDom visits each node exactly once in document order
pub fn serialize_visit_check(d: &Dom, rc: &RcDom) -> Option<String> {
    let mut want = vec![];
    model_events(d, 0, &mut want);
    let mut rec = Rec { ev: vec![] };
    let h: SerializableHandle = rc.document.clone().into();
    if let Err(e) = h.serialize(&mut rec, TraversalScope::ChildrenOnly(None)) {
        return Some(format!("serialize failed: {e}"));
    }
    if rec.ev != want {
        let k = rec.ev.iter().zip(want.iter()).position(|(a, b)| a != b).unwrap_or(rec.ev.len().min(want.len()));
        return Some(format!("event #{k}: rcdom {:?} model {:?}", rec.ev.get(k), want.get(k)));
    }
    None
}

/// nodes outside the document: a parentless node has no parent link; an attached
/// one names the node whose child list contains it
pub fn detached_links_check(sink: &MSink) -> Option<String> {
    let d = sink.dom.borrow();
    for (i, n) in d.nodes.iter().enumerate() {
        if !n.by_sink || i == 0 {
            continue;
        }
        let Some(h) = sink.rc_handle_of(i) else { continue };
        let p = h.parent.take();
        let up = p.as_ref().and_then(|w| w.upgrade());
        h.parent.set(p);
        match (n.parent, up) {
            (None, None) => {},
            (None, Some(_)) => {
                if n.host.is_none() {
                    return Some(format!("node #{i} is in no child list but its RcDom parent link is set"));
                }
            },
            (Some(mp), Some(rp)) => {
                let want = sink.rc_handle_of(mp);
                if let Some(w) = want {
                    if !std::rc::Rc::ptr_eq(&w, &rp) {
                        return Some(format!("node #{i}: RcDom parent link names a different node than the model parent #{mp}"));
                    }
                    if !rp.children.borrow().iter().any(|c| std::rc::Rc::ptr_eq(c, &h)) {
                        return Some(format!("node #{i}: parent's child list does not contain it"));
                    }
                }
            },
            (Some(mp), None) => return Some(format!("node #{i} has model parent #{mp} but no RcDom parent link")),
        }
    }
    None
}


// ---------------------------------------------------------------- (b) direct operation sequences

use html5ever::tendril::StrTendril;
use html5ever::tree_builder::{create_element, NodeOrText, TreeSink};
use html5ever::{Attribute, LocalName, Namespace};

#[derive(Clone, Copy, Debug, PartialEq)]
pub enum DOp {
    NewEl(u8),
    NewComment,
    Append(u8, u8),
    AppendText(u8, u8),
    AppendTpl(u8, u8),
    Before(u8, u8),
    BeforeText(u8, u8),
    Based(u8, u8, u8),
    Remove(u8),
    Reparent(u8, u8),
    Attrs(u8, u8),
    CloneOpt(u8),
}

const POOL: u8 = 4;
const KINDS: [(&str, &[(&str, &str)]); 6] = [("a", &[]), ("template", &[]), ("select", &[]), ("option", &[("selected", "")]), ("selectedcontent", &[]), ("b", &[("id", "1")])];
const TEXTS: [&str; 2] = ["x", "yz"];

pub fn direct_alphabet() -> Vec<DOp> {
    let mut v = vec![];
    for k in 0..KINDS.len() as u8 {
        v.push(DOp::NewEl(k));
    }
    v.push(DOp::NewComment);
    for p in 0..=POOL {
        for t in 0..TEXTS.len() as u8 {
            v.push(DOp::AppendText(p, t));
        }
        for c in 1..=POOL {
            if p != c {
                v.push(DOp::Append(p, c));
            }
        }
    }
    for p in 1..=POOL {
        for c in 1..=POOL {
            if p != c {
                v.push(DOp::AppendTpl(p, c));
                v.push(DOp::Before(p, c));
                v.push(DOp::Reparent(p, c));
            }
        }
        for t in 0..TEXTS.len() as u8 {
            v.push(DOp::BeforeText(p, t));
        }
        v.push(DOp::Remove(p));
        v.push(DOp::Attrs(p, 0));
        v.push(DOp::Attrs(p, 1));
        v.push(DOp::CloneOpt(p));
    }
    for c in 1..=POOL {
        v.push(DOp::Based(1, 2, c));
        v.push(DOp::Based(2, 1, c));
    }
    v
}

fn qname(l: &str) -> html5ever::QualName {
    html5ever::QualName::new(None, Namespace::from(HTML_NS), LocalName::from(l))
}

/// Apply a history to a fresh MSink (model + RcDom). None = some op's precondition (the
/// documented TreeSink contract) does not hold.
pub fn run_direct(ops: &[DOp], h: &[u16]) -> Option<(MSink, Vec<usize>)> {
    let sink = MSink::new(true, false);
    let mut pool: Vec<usize> = vec![0];
    for &s in h {
        let op = ops[s as usize];
        let get = |i: u8| -> Option<usize> { pool.get(i as usize).copied() };
        let d_is_el = |n: usize| sink.dom.borrow().is_element(n);
        match op {
            DOp::NewEl(k) => {
                if pool.len() > POOL as usize {
                    return None;
                }
                let (name, attrs) = KINDS[k as usize];
                let at: Vec<Attribute> = attrs
                    .iter()
                    .map(|(k, v)| Attribute { name: html5ever::QualName::new(None, Namespace::from(""), LocalName::from(*k)), value: StrTendril::from_slice(v) })
                    .collect();
                let e = create_element(&sink, qname(name), at);
                pool.push(e);
            },
            DOp::NewComment => {
                if pool.len() > POOL as usize {
                    return None;
                }
                pool.push(sink.create_comment(StrTendril::from_slice("c")));
            },
            DOp::Append(p, c) | DOp::AppendTpl(p, c) => {
                let (p0, c) = (get(p)?, get(c)?);
                let parent = if let DOp::AppendTpl(..) = op {
                    if !sink.dom.borrow().is_html(p0, "template") {
                        return None;
                    }
                    sink.get_template_contents(&p0)
                } else {
                    p0
                };
                {
                    let d = sink.dom.borrow();
                    if d.nodes[c].parent.is_some() || d.is_inclusive_ancestor(c, parent) {
                        return None;
                    }
                    if !(parent == 0 || d.is_element(parent) || matches!(d.nodes[parent].kind, Kind::Fragment)) {
                        return None;
                    }
                }
                sink.append(&parent, NodeOrText::AppendNode(c));
            },
            DOp::AppendText(p, t) => {
                let p = get(p)?;
                if p == 0 || !d_is_el(p) {
                    return None;
                }
                sink.append(&p, NodeOrText::AppendText(StrTendril::from_slice(TEXTS[t as usize])));
            },
            DOp::Before(sib, c) => {
                let (sib, c) = (get(sib)?, get(c)?);
                {
                    let d = sink.dom.borrow();
                    let sp = d.nodes[sib].parent?;
                    if d.is_inclusive_ancestor(c, sp) {
                        return None;
                    }
                }
                sink.append_before_sibling(&sib, NodeOrText::AppendNode(c));
            },
            DOp::BeforeText(sib, t) => {
                let sib = get(sib)?;
                {
                    let d = sink.dom.borrow();
                    let sp = d.nodes[sib].parent?;
                    if sp == 0 {
                        return None;
                    }
                }
                sink.append_before_sibling(&sib, NodeOrText::AppendText(StrTendril::from_slice(TEXTS[t as usize])));
            },
            DOp::Based(e, prev, c) => {
                let (e, prev, c) = (get(e)?, get(prev)?, get(c)?);
                if c == e || c == prev {
                    return None;
                }
                {
                    let d = sink.dom.borrow();
                    if !d.is_element(e) || !d.is_element(prev) {
                        return None;
                    }
                    let target_parent = d.nodes[e].parent.unwrap_or(prev);
                    if d.is_inclusive_ancestor(c, target_parent) {
                        return None;
                    }
                    // append (no-parent branch) requires a parentless child
                    if d.nodes[e].parent.is_none() && d.nodes[c].parent.is_some() {
                        return None;
                    }
                }
                sink.append_based_on_parent_node(&e, &prev, NodeOrText::AppendNode(c));
            },
            DOp::Remove(n) => {
                let n = get(n)?;
                sink.remove_from_parent(&n);
            },
            DOp::Reparent(n, np) => {
                let (n, np) = (get(n)?, get(np)?);
                {
                    let d = sink.dom.borrow();
                    if !d.is_element(n) || !d.is_element(np) || d.is_inclusive_ancestor(n, np) || d.nodes[n].children.is_empty() {
                        return None;
                    }
                }
                sink.reparent_children(&n, &np);
            },
            DOp::Attrs(n, which) => {
                let n = get(n)?;
                if !d_is_el(n) {
                    return None;
                }
                let at = if which == 0 {
                    vec![Attribute { name: html5ever::QualName::new(None, Namespace::from(""), LocalName::from("id")), value: StrTendril::from_slice("2") }]
                } else {
                    vec![
                        Attribute { name: html5ever::QualName::new(None, Namespace::from(""), LocalName::from("selected")), value: StrTendril::from_slice("s") },
                        Attribute { name: html5ever::QualName::new(None, Namespace::from(""), LocalName::from("k")), value: StrTendril::from_slice("v") },
                    ]
                };
                sink.add_attrs_if_missing(&n, at);
            },
            DOp::CloneOpt(n) => {
                let n = get(n)?;
                if !sink.dom.borrow().is_html(n, "option") {
                    return None;
                }
                sink.maybe_clone_an_option_into_selectedcontent(&n);
            },
        }
    }
    Some((sink, pool))
}

fn direct_key(sink: &MSink, pool: &[usize]) -> u128 {
    let d = sink.dom.borrow();
    let mut s = d.render_doc();
    for (i, &n) in pool.iter().enumerate().skip(1) {
        let par = d.nodes[n].parent;
        s.push_str(&format!("~pool{i} parent={:?}\n", par.map(|p| pool.iter().position(|x| *x == p))));
        if par.is_none() {
            d.render(n, &mut s, 1);
        }
    }
    digest(&s)
}

fn direct_check(sink: &MSink, pool: &[usize]) -> Option<(String, String)> {
    if let Some(c) = sink.contract.borrow().first() {
        return Some(("harness-contract".into(), format!("the harness issued a call the monitor rejects: {c}")));
    }
    let rc = sink.rc.as_ref().unwrap();
    if let Some(m) = compare_rcdom(&sink.dom.borrow(), 0, &rc.document, "") {
        return Some(("rcdom-differs".into(), m));
    }
    for &n in pool.iter().skip(1) {
        if sink.dom.borrow().nodes[n].parent.is_none() {
            if let Some(h) = sink.rc_handle_of(n) {
                if let Some(m) = compare_rcdom(&sink.dom.borrow(), n, &h, &format!("detached#{n}")) {
                    return Some(("rcdom-differs".into(), m));
                }
            }
        }
    }
    if let Some(m) = detached_links_check(sink) {
        return Some(("parent-link".into(), m));
    }
    if let Some(m) = serialize_visit_check(&sink.dom.borrow(), rc) {
        return Some(("serialize-order".into(), m));
    }
    None
}

pub fn render_direct(ops: &[DOp], h: &[u16]) -> String {
    format!("direct: {}", h.iter().map(|&s| format!("{:?}", ops[s as usize])).collect::<Vec<_>>().join("; "))
}

pub fn direct(ctx: &Ctx) -> (u64, u64, bool, usize) {
    let ops = direct_alphabet();
    let depth = ctx.tier.pick(5, 7);
    let cfg = BfsCfg { max_depth: depth, max_states: 60_000_000, max_secs: ctx.tier.pick(200.0, 300.0) };
    let root = {
        let (s, p) = run_direct(&ops, &[]).unwrap();
        direct_key(&s, &p)
    };
    let out = bfs(
        vec![(vec![], root)],
        ops.len(),
        &cfg,
        |h, s| {
            let mut nh = h.to_vec();
            nh.push(s);
            match guarded(|| run_direct(&ops, &nh)) {
                Err(p) => {
                    ctx.violation("panic", &render_direct(&ops, &nh), json!({"panic": p}));
                    Step::Violation
                },
                Ok(None) => Step::Disabled,
                Ok(Some((sink, pool))) => {
                    if let Some((k, m)) = direct_check(&sink, &pool) {
                        if k == "harness-contract" {
                            machinery(&format!("{m} in {}", render_direct(&ops, &nh)));
                        }
                        ctx.violation(&k, &render_direct(&ops, &nh), json!({"message": m, "model": sink.dom.borrow().render_doc()}));
                        return Step::Violation;
                    }
                    Step::Next(direct_key(&sink, &pool))
                },
            }
        },
        |_, _| {},
    );
    let mut complete = out.closed || out.capped_by.as_deref().map(|c| c.starts_with("max_depth")).unwrap_or(false);
    let (mut states, mut transitions) = (out.states, out.transitions);
    // second search from prepared structures (wide child lists, text between elements, template contents,
    // a select with option and selectedcontent): states the first search cannot reach within its depth
    let idx = |o: DOp| -> u16 { ops.iter().position(|x| format!("{x:?}") == format!("{o:?}")).unwrap_or_else(|| machinery(&format!("prepared op {o:?} not in the alphabet"))) as u16 };
    use DOp::*;
    let preps: Vec<Vec<DOp>> = vec![
        vec![NewEl(0), NewEl(5), NewComment, NewEl(0), Append(0, 1), Append(1, 2), Append(1, 3), Append(1, 4), AppendText(1, 0)],
        vec![NewEl(0), NewEl(5), NewEl(0), NewEl(5), Append(0, 1), AppendText(1, 0), Append(1, 2), AppendText(1, 1), Append(1, 3), AppendText(1, 0), Append(1, 4)],
        vec![NewEl(1), NewEl(0), NewEl(5), NewComment, Append(0, 1), AppendTpl(1, 2), AppendTpl(1, 3), AppendTpl(1, 4)],
        vec![NewEl(2), NewEl(3), NewEl(4), NewEl(5), Append(0, 1), Append(1, 3), Append(1, 2), Append(2, 4), AppendText(4, 0)],
        vec![NewEl(0), NewEl(0), NewEl(5), NewComment, Append(0, 1), Append(0, 2), Append(1, 3), Append(1, 4), AppendText(2, 0), AppendText(1, 1)],
    ];
    let pdepth = ctx.tier.pick(3, 4);
    let pcfg = BfsCfg { max_depth: pdepth, max_states: 60_000_000, max_secs: ctx.tier.pick(200.0, 300.0) };
    let mut roots = vec![];
    for p in &preps {
        let h: Vec<u16> = p.iter().map(|o| idx(*o)).collect();
        match run_direct(&ops, &h) {
            Some((s, pool)) => {
                if let Some((k, m)) = direct_check(&s, &pool) {
                    ctx.violation(&k, &render_direct(&ops, &h), json!({"message": m}));
                } else {
                    roots.push((h, direct_key(&s, &pool)));
                }
            },
            None => machinery(&format!("prepared structure {p:?} is not enabled")),
        }
    }
    let out2 = bfs(
        roots,
        ops.len(),
        &pcfg,
        |h, s| {
            let mut nh = h.to_vec();
            nh.push(s);
            match guarded(|| run_direct(&ops, &nh)) {
                Err(p) => {
                    ctx.violation("panic", &render_direct(&ops, &nh), json!({"panic": p}));
                    Step::Violation
                },
                Ok(None) => Step::Disabled,
                Ok(Some((sink, pool))) => {
                    if let Some((k, m)) = direct_check(&sink, &pool) {
                        if k == "harness-contract" {
                            machinery(&format!("{m} in {}", render_direct(&ops, &nh)));
                        }
                        ctx.violation(&k, &render_direct(&ops, &nh), json!({"message": m, "model": sink.dom.borrow().render_doc()}));
                        return Step::Violation;
                    }
                    Step::Next(direct_key(&sink, &pool))
                },
            }
        },
        |_, _| {},
    );
    states += out2.states;
    transitions += out2.transitions;
    complete &= out2.closed || out2.capped_by.as_deref().map(|c| c.starts_with("max_depth")).unwrap_or(false);
    (states, transitions, complete, depth)
}

pub fn replay_direct(ctx: &Ctx, w: &str) {
    let ops = direct_alphabet();
    let names: Vec<String> = ops.iter().map(|o| format!("{o:?}")).collect();
    let h: Vec<u16> = w.trim_start_matches("direct: ").split("; ").filter(|s| !s.is_empty()).map(|s| names.iter().position(|n| n == s).unwrap_or_else(|| machinery("unknown op")) as u16).collect();
    match run_direct(&ops, &h) {
        None => println!("replay: history not enabled"),
        Some((sink, pool)) => {
            println!("{}", sink.dom.borrow().render_doc());
            match direct_check(&sink, &pool) {
                None => println!("replay: passes"),
                Some((k, m)) => {
                    ctx.violation(&k, w, json!({ "message": m }));
                    println!("replay: FAILS");
                },
            }
        },
    }
}

pub fn main(ctx: &Ctx) -> ! {
    let _ = (json!(0), BfsCfg { max_depth: 0, max_states: 0, max_secs: 0.0 });
    crate::e2::main(ctx, crate::e2::Prop::C20)
}
