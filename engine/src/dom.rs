//! R-dom: abstract DOM (arena) + `MSink`, a TreeSink that applies every call
//! to the model, validates the documented calling contract (C05), optionally
//! tees the same calls into a real RcDom (C20), records encoding-relevant
//! events (C19) and supports a simulated garbage collector (C18).
use html5ever::tendril::StrTendril;
use html5ever::tree_builder::{ElemName, ElementFlags, NodeOrText, QuirksMode, TreeSink};
use html5ever::{Attribute, LocalName, Namespace, QualName};
use markup5ever_rcdom::{Handle as RcHandle, NodeData, RcDom};
use std::borrow::Cow;
use std::cell::{Cell, RefCell};

#[derive(Clone, Debug, PartialEq, Eq, Hash)]
pub struct MAttr {
    pub ns: String,
    pub prefix: Option<String>,
    pub local: String,
    pub value: String,
}
impl MAttr {
    pub fn from(a: &Attribute) -> MAttr {
        MAttr {
            ns: a.name.ns.to_string(),
            prefix: a.name.prefix.as_ref().map(|p| p.to_string()),
            local: a.name.local.to_string(),
            value: a.value.to_string(),
        }
    }
}

#[derive(Clone, Debug, PartialEq, Eq, Hash)]
pub enum Kind {
    Document,
    /// template contents
    Fragment,
    Doctype { name: String, public: String, system: String },
    Element {
        ns: String,
        prefix: Option<String>,
        local: String,
        attrs: Vec<MAttr>,
        template: Option<usize>,
        mathml_ip: bool,
        dup: bool,
    },
    Text(String),
    Comment(String),
    Pi { target: String, data: String },
}

#[derive(Clone, Debug)]
pub struct MNode {
    pub kind: Kind,
    pub parent: Option<usize>,
    pub children: Vec<usize>,
    /// for template contents: the template element that hosts them
    pub host: Option<usize>,
    /// created by a sink call (as opposed to text nodes made by the model)
    pub by_sink: bool,
    pub script_started: bool,
    pub form_owner: Option<usize>,
    pub collected: bool,
}

#[derive(Clone, Debug, Default)]
pub struct Dom {
    pub nodes: Vec<MNode>,
}

pub const HTML_NS: &str = "http://www.w3.org/1999/xhtml";
pub const SVG_NS: &str = "http://www.w3.org/2000/svg";
pub const MATHML_NS: &str = "http://www.w3.org/1998/Math/MathML";

impl Dom {
    pub fn new() -> Dom {
        let mut d = Dom { nodes: vec![] };
        d.add(Kind::Document, false);
        d
    }
    pub fn add(&mut self, kind: Kind, by_sink: bool) -> usize {
        self.nodes.push(MNode {
            kind,
            parent: None,
            children: vec![],
            host: None,
            by_sink,
            script_started: false,
            form_owner: None,
            collected: false,
        });
        self.nodes.len() - 1
    }
    pub fn is_element(&self, n: usize) -> bool {
        matches!(self.nodes[n].kind, Kind::Element { .. })
    }
    pub fn is_text(&self, n: usize) -> bool {
        matches!(self.nodes[n].kind, Kind::Text(_))
    }
    pub fn elem(&self, n: usize) -> Option<(&str, &str)> {
        match &self.nodes[n].kind {
            Kind::Element { ns, local, .. } => Some((ns.as_str(), local.as_str())),
            _ => None,
        }
    }
    pub fn is_html(&self, n: usize, name: &str) -> bool {
        self.elem(n) == Some((HTML_NS, name))
    }
    pub fn attrs(&self, n: usize) -> &[MAttr] {
        match &self.nodes[n].kind {
            Kind::Element { attrs, .. } => attrs,
            _ => &[],
        }
    }
    pub fn detach(&mut self, n: usize) {
        if let Some(p) = self.nodes[n].parent.take() {
            self.nodes[p].children.retain(|&c| c != n);
        }
    }
    pub fn is_inclusive_ancestor(&self, anc: usize, mut n: usize) -> bool {
        loop {
            if n == anc {
                return true;
            }
            match self.nodes[n].parent.or(self.nodes[n].host) {
                Some(p) => n = p,
                None => return false,
            }
        }
    }
    fn append_text_or_node(&mut self, parent: usize, index: Option<usize>, child: Result<usize, String>) {
        // index None = append at the end
        let at = index.unwrap_or(self.nodes[parent].children.len());
        match child {
            Err(text) => {
                if at > 0 {
                    let prev = self.nodes[parent].children[at - 1];
                    if let Kind::Text(t) = &mut self.nodes[prev].kind {
                        t.push_str(&text);
                        return;
                    }
                }
                let t = self.add(Kind::Text(text), false);
                self.nodes[t].parent = Some(parent);
                self.nodes[parent].children.insert(at, t);
            },
            Ok(n) => {
                self.nodes[n].parent = Some(parent);
                self.nodes[parent].children.insert(at, n);
            },
        }
    }
    pub fn append(&mut self, parent: usize, child: Result<usize, String>) {
        self.append_text_or_node(parent, None, child)
    }
    pub fn append_before_sibling(&mut self, sibling: usize, child: Result<usize, String>) {
        if let Ok(n) = child {
            // "new_node may have an old parent, from which it should be removed"
            self.detach(n);
        }
        let parent = self.nodes[sibling].parent.expect("sibling without parent");
        let i = self.nodes[parent].children.iter().position(|&c| c == sibling).unwrap();
        self.append_text_or_node(parent, Some(i), child)
    }
    pub fn reparent_children(&mut self, node: usize, new_parent: usize) {
        let ch = std::mem::take(&mut self.nodes[node].children);
        for c in &ch {
            self.nodes[*c].parent = Some(new_parent);
        }
        self.nodes[new_parent].children.extend(ch);
    }
    pub fn add_attrs_if_missing(&mut self, target: usize, add: Vec<MAttr>) {
        if let Kind::Element { attrs, .. } = &mut self.nodes[target].kind {
            let existing: Vec<(String, Option<String>, String)> =
                attrs.iter().map(|a| (a.ns.clone(), a.prefix.clone(), a.local.clone())).collect();
            for a in add {
                // QualName equality = (prefix, ns, local)
                if !existing.iter().any(|e| e.0 == a.ns && e.1 == a.prefix && e.2 == a.local) {
                    attrs.push(a);
                }
            }
        }
    }
    pub fn clone_subtree(&mut self, n: usize) -> usize {
        let kind = self.nodes[n].kind.clone();
        let c = self.add(kind, false);
        // DOM cloning steps of a template element: the clone gets a copy of the contents (its own fragment)
        let src_tpl = if let Kind::Element { template, .. } = &self.nodes[n].kind { *template } else { None };
        if let Some(f) = src_tpl {
            let fc = self.clone_subtree(f);
            if let Kind::Element { template, .. } = &mut self.nodes[c].kind {
                *template = Some(fc);
            }
        }
        let ch = self.nodes[n].children.clone();
        for x in ch {
            let cc = self.clone_subtree(x);
            self.nodes[cc].parent = Some(c);
            self.nodes[c].children.push(cc);
        }
        c
    }
    /// https://html.spec.whatwg.org/#maybe-clone-an-option-into-selectedcontent
    pub fn maybe_clone_option(&mut self, option: usize) {
        // option element nearest ancestor select
        let mut cur = self.nodes[option].parent;
        let mut seen_optgroup = false;
        let mut select = None;
        while let Some(a) = cur {
            if let Some((_, l)) = self.elem(a) {
                if matches!(l, "datalist" | "hr" | "option") {
                    break;
                }
                if l == "optgroup" {
                    if seen_optgroup {
                        break;
                    }
                    seen_optgroup = true;
                }
                if l == "select" {
                    select = Some(a);
                    break;
                }
            }
            cur = self.nodes[a].parent;
        }
        let Some(select) = select else { return };
        // option's selectedness: during parsing = has the selected attribute
        if !self.attrs(option).iter().any(|a| a.local == "selected") {
            return;
        }
        if self.attrs(select).iter().any(|a| a.local == "multiple") {
            return;
        }
        // first selectedcontent descendant of select in tree order
        let mut stack: Vec<usize> = self.nodes[select].children.iter().rev().cloned().collect();
        let mut target = None;
        while let Some(n) = stack.pop() {
            if let Some((_, "selectedcontent")) = self.elem(n) {
                target = Some(n);
                break;
            }
            stack.extend(self.nodes[n].children.iter().rev().cloned());
        }
        let Some(sc) = target else { return };
        let kids = self.nodes[option].children.clone();
        let clones: Vec<usize> = kids.iter().map(|&k| self.clone_subtree(k)).collect();
        // replace all
        let old = std::mem::take(&mut self.nodes[sc].children);
        for o in old {
            self.nodes[o].parent = None;
        }
        for c in &clones {
            self.nodes[*c].parent = Some(sc);
        }
        self.nodes[sc].children = clones;
    }

    /// canonical pre-order rendering of the subtree under `n`
    pub fn render(&self, n: usize, out: &mut String, depth: usize) {
        let ind = "  ".repeat(depth);
        match &self.nodes[n].kind {
            Kind::Document => out.push_str("#document\n"),
            Kind::Fragment => out.push_str(&format!("{ind}#content\n")),
            Kind::Doctype { name, public, system } => out.push_str(&format!("{ind}<!DOCTYPE {name:?} {public:?} {system:?}>\n")),
            Kind::Text(t) => out.push_str(&format!("{ind}{t:?}\n")),
            Kind::Comment(t) => out.push_str(&format!("{ind}<!-- {t:?} -->\n")),
            Kind::Pi { target, data } => out.push_str(&format!("{ind}<?{target:?} {data:?}>\n")),
            Kind::Element { ns, prefix, local, attrs, template, mathml_ip: _, dup } => {
                let nsn = match ns.as_str() {
                    HTML_NS => "",
                    SVG_NS => "svg ",
                    MATHML_NS => "math ",
                    o => o,
                };
                out.push_str(&format!("{ind}<{nsn}{}{local}", prefix.as_ref().map(|p| format!("{p}:")).unwrap_or_default()));
                if *dup {
                    out.push_str(" [dup]");
                }
                out.push_str(">\n");
                for a in attrs {
                    out.push_str(&format!("{ind}  @{}|{}{}={:?}\n", a.ns, a.prefix.as_ref().map(|p| format!("{p}:")).unwrap_or_default(), a.local, a.value));
                }
                if let Some(t) = template {
                    self.render(*t, out, depth + 1);
                }
            },
        }
        for &c in &self.nodes[n].children {
            self.render(c, out, depth + 1);
        }
    }
    pub fn render_doc(&self) -> String {
        let mut s = String::new();
        self.render(0, &mut s, 0);
        s
    }
}

#[derive(Clone)]
pub struct OwnedName {
    pub ns: Namespace,
    pub local: LocalName,
}
impl std::fmt::Debug for OwnedName {
    fn fmt(&self, f: &mut std::fmt::Formatter) -> std::fmt::Result {
        write!(f, "{}:{}", self.ns, self.local)
    }
}
impl ElemName for OwnedName {
    fn ns(&self) -> &Namespace {
        &self.ns
    }
    fn local_name(&self) -> &LocalName {
        &self.local
    }
}

#[derive(Clone, Debug)]
pub struct MetaEvent {
    pub node: usize,
    pub attached: bool,
}

pub struct MSink {
    pub dom: RefCell<Dom>,
    /// real names for elem_name (atoms), parallel to dom.nodes
    names: RefCell<Vec<Option<(Namespace, LocalName)>>>,
    pub rc: Option<RcDom>,
    /// set while a composite operation has already been forwarded to RcDom as ONE call
    rc_forwarded: Cell<bool>,
    rc_handles: RefCell<Vec<Option<RcHandle>>>,
    pub contract: RefCell<Vec<String>>,
    pub errors: RefCell<Vec<String>>,
    pub quirks: Cell<QuirksMode>,
    pub quirks_set: Cell<bool>,
    pub lines: RefCell<Vec<u64>>,
    pub doctypes: Cell<u32>,
    /// answer to attach_declarative_shadow
    pub shadow_answer: bool,
    pub shadow_calls: Cell<u32>,
    /// HTML meta elements in the order they were inserted
    pub metas: RefCell<Vec<usize>>,
    pub popped: RefCell<Vec<usize>>,
    pub xml: bool,
    /// (address of the tokenizer, accessor): the line of the token being processed right now
    pub line_probe: Cell<Option<(usize, fn(usize) -> u64)>>,
    /// sink calls made while the sink's idea of the current line differs from the tokenizer's
    pub line_problems: RefCell<Vec<String>>,
    pub line_checked: Cell<u64>,
}

impl MSink {
    pub fn new(with_rcdom: bool, shadow_answer: bool) -> MSink {
        let rc = if with_rcdom { Some(RcDom::default()) } else { None };
        let h0 = rc.as_ref().map(|r| r.document.clone());
        MSink {
            dom: RefCell::new(Dom::new()),
            names: RefCell::new(vec![None]),
            rc,
            rc_forwarded: Cell::new(false),
            rc_handles: RefCell::new(vec![h0]),
            contract: RefCell::new(vec![]),
            errors: RefCell::new(vec![]),
            quirks: Cell::new(QuirksMode::NoQuirks),
            quirks_set: Cell::new(false),
            lines: RefCell::new(vec![]),
            doctypes: Cell::new(0),
            shadow_answer,
            shadow_calls: Cell::new(0),
            metas: RefCell::new(vec![]),
            popped: RefCell::new(vec![]),
            xml: false,
            line_probe: Cell::new(None),
            line_problems: RefCell::new(vec![]),
            line_checked: Cell::new(0),
        }
    }
    fn bad(&self, msg: String) {
        self.contract.borrow_mut().push(msg);
    }
    /// C09 (forwarding clause): whenever the builder calls a tree-changing sink method, the last line
    /// passed to set_current_line (initially 1) must be the line of the token being processed
    fn note_call(&self, what: &str) {
        if let Some((addr, f)) = self.line_probe.get() {
            let tok_line = f(addr);
            let sink_line = self.lines.borrow().last().copied().unwrap_or(1);
            self.line_checked.set(self.line_checked.get() + 1);
            if tok_line != sink_line && self.line_problems.borrow().len() < 4 {
                self.line_problems.borrow_mut().push(format!("{what}: the sink was last told line {sink_line}, the token being processed is on line {tok_line}"));
            }
        }
    }
    fn rch(&self, n: usize) -> Option<RcHandle> {
        let mut hs = self.rc_handles.borrow_mut();
        if self.rc.is_none() {
            return None;
        }
        if n < hs.len() {
            if let Some(h) = &hs[n] {
                return Some(h.clone());
            }
        }
        // template contents fragments are created lazily on the RcDom side
        let d = self.dom.borrow();
        if let Some(host) = d.nodes[n].host {
            let hh = hs[host].clone().unwrap();
            drop(d);
            let c = self.rc.as_ref().unwrap().get_template_contents(&hh);
            while hs.len() <= n {
                hs.push(None);
            }
            hs[n] = Some(c.clone());
            return Some(c);
        }
        None
    }
    fn push_handle(&self, n: usize, h: Option<RcHandle>, name: Option<(Namespace, LocalName)>) {
        let mut hs = self.rc_handles.borrow_mut();
        while hs.len() <= n {
            hs.push(None);
        }
        hs[n] = h;
        let mut ns = self.names.borrow_mut();
        while ns.len() <= n {
            ns.push(None);
        }
        ns[n] = name;
    }
    fn check_live(&self, what: &str, n: usize) {
        let d = self.dom.borrow();
        if n >= d.nodes.len() {
            self.bad(format!("{what}: handle {n} was not created by this sink"));
        } else if d.nodes[n].collected {
            self.bad(format!("{what}: node #{n} was collected at an earlier suspension point (not traced, not connected)"));
        }
    }
    fn check_elem(&self, what: &str, n: usize) -> bool {
        self.check_live(what, n);
        let d = self.dom.borrow();
        if n < d.nodes.len() && !d.is_element(n) {
            drop(d);
            self.bad(format!("{what}: node #{n} is not an element"));
            return false;
        }
        true
    }
    fn check_attrs(&self, what: &str, attrs: &[Attribute]) {
        for (i, a) in attrs.iter().enumerate() {
            // "qualified name" as the property says it (prefix, namespace, local name): xml5ever hands over an
            // unbound p:k next to k - same expanded name, different qualified names - and that is not what C05 forbids
            if attrs[..i].iter().any(|b| b.name == a.name) {
                self.bad(format!("{what}: attribute list contains {:?} twice", a.name));
            }
        }
    }
    fn child_of(&self, what: &str, parent: usize, child: &NodeOrText<usize>) -> Result<usize, String> {
        match child {
            NodeOrText::AppendText(t) => {
                if t.is_empty() {
                    self.bad(format!("{what}: empty text"));
                }
                Err(t.to_string())
            },
            NodeOrText::AppendNode(n) => {
                self.check_live(what, *n);
                let d = self.dom.borrow();
                if d.is_inclusive_ancestor(*n, parent) {
                    drop(d);
                    self.bad(format!("{what}: node #{n} would be inserted under itself or a descendant"));
                } else if matches!(d.nodes[*n].kind, Kind::Document | Kind::Fragment) {
                    drop(d);
                    self.bad(format!("{what}: a document / fragment node is inserted as a child"));
                }
                Ok(*n)
            },
        }
    }
    fn can_have_children(&self, what: &str, p: usize) {
        let d = self.dom.borrow();
        if !matches!(d.nodes[p].kind, Kind::Document | Kind::Fragment | Kind::Element { .. }) {
            drop(d);
            self.bad(format!("{what}: parent #{p} cannot have children"));
        }
    }
    fn note_insert(&self, n: Result<usize, String>) {
        if let Ok(n) = n {
            if self.dom.borrow().is_html(n, "meta") {
                self.metas.borrow_mut().push(n);
            }
        }
    }
    fn rc_child(&self, child: &Result<usize, String>) -> Option<NodeOrText<RcHandle>> {
        match child {
            Ok(n) => self.rch(*n).map(NodeOrText::AppendNode),
            Err(t) => Some(NodeOrText::AppendText(StrTendril::from_slice(t))),
        }
    }

    // ---- simulated collector (C18) ----
    /// mark everything not reachable from `roots` (through parent, children,
    /// template contents and host links) as collected; returns how many
    pub fn collect_except(&self, roots: &[usize]) -> usize {
        let mut d = self.dom.borrow_mut();
        let n = d.nodes.len();
        let mut mark = vec![false; n];
        let mut stack: Vec<usize> = roots.to_vec();
        while let Some(x) = stack.pop() {
            if x >= n || mark[x] {
                continue;
            }
            mark[x] = true;
            let node = &d.nodes[x];
            if let Some(p) = node.parent {
                stack.push(p);
            }
            if let Some(h) = node.host {
                stack.push(h);
            }
            stack.extend(node.children.iter().cloned());
            if let Kind::Element { template: Some(t), .. } = &node.kind {
                stack.push(*t);
            }
        }
        let mut c = 0;
        for i in 0..n {
            if !mark[i] && !d.nodes[i].collected {
                d.nodes[i].collected = true;
                c += 1;
            }
        }
        c
    }
    /// "script": detach a node from its parent (model and RcDom)
    pub fn script_detach(&self, n: usize) {
        self.dom.borrow_mut().detach(n);
        if let (Some(rc), Some(h)) = (&self.rc, self.rch(n)) {
            rc.remove_from_parent(&h);
        }
    }
    pub fn rc_handle_of(&self, n: usize) -> Option<RcHandle> {
        self.rch(n)
    }
}

fn qn(name: &QualName) -> (String, Option<String>, String) {
    (name.ns.to_string(), name.prefix.as_ref().map(|p| p.to_string()), name.local.to_string())
}

impl TreeSink for MSink {
    type Handle = usize;
    type Output = Self;
    type ElemName<'a> = OwnedName;

    fn finish(self) -> Self {
        self
    }
    fn parse_error(&self, msg: Cow<'static, str>) {
        self.errors.borrow_mut().push(msg.to_string());
    }
    fn get_document(&self) -> usize {
        0
    }
    fn elem_name<'a>(&'a self, target: &'a usize) -> OwnedName {
        if !self.check_elem("elem_name", *target) {
            return OwnedName { ns: Namespace::from(""), local: LocalName::from("#not-an-element") };
        }
        let ns = self.names.borrow();
        let (n, l) = ns[*target].clone().unwrap();
        OwnedName { ns: n, local: l }
    }
    fn create_element(&self, name: QualName, attrs: Vec<Attribute>, flags: ElementFlags) -> usize {
        self.note_call("create_element");
        self.check_attrs("create_element", &attrs);
        let (ns, prefix, local) = qn(&name);
        let mut d = self.dom.borrow_mut();
        let id = d.add(
            Kind::Element {
                ns,
                prefix,
                local,
                attrs: attrs.iter().map(MAttr::from).collect(),
                template: None,
                mathml_ip: flags.mathml_annotation_xml_integration_point,
                dup: flags.had_duplicate_attributes,
            },
            true,
        );
        if flags.template {
            let f = d.add(Kind::Fragment, true);
            d.nodes[f].host = Some(id);
            if let Kind::Element { template, .. } = &mut d.nodes[id].kind {
                *template = Some(f);
            }
        }
        drop(d);
        let nm = (name.ns.clone(), name.local.clone());
        let h = self.rc.as_ref().map(|rc| {
            let mut fl = ElementFlags::default();
            fl.template = flags.template;
            fl.mathml_annotation_xml_integration_point = flags.mathml_annotation_xml_integration_point;
            fl.had_duplicate_attributes = flags.had_duplicate_attributes;
            rc.create_element(name, attrs, fl)
        });
        self.push_handle(id, h, Some(nm));
        id
    }
    fn create_comment(&self, text: StrTendril) -> usize {
        self.note_call("create_comment");
        let id = self.dom.borrow_mut().add(Kind::Comment(text.to_string()), true);
        let h = self.rc.as_ref().map(|rc| rc.create_comment(text));
        self.push_handle(id, h, None);
        id
    }
    fn create_pi(&self, target: StrTendril, data: StrTendril) -> usize {
        self.note_call("create_pi");
        let id = self.dom.borrow_mut().add(Kind::Pi { target: target.to_string(), data: data.to_string() }, true);
        let h = self.rc.as_ref().map(|rc| rc.create_pi(target, data));
        self.push_handle(id, h, None);
        id
    }
    fn append(&self, parent: &usize, child: NodeOrText<usize>) {
        self.note_call("append");
        self.check_live("append(parent)", *parent);
        self.can_have_children("append", *parent);
        let c = self.child_of("append", *parent, &child);
        if let Ok(n) = c {
            if self.dom.borrow().nodes[n].parent.is_some() {
                self.bad(format!("append: child #{n} already has a parent"));
                // keep the model a tree
                self.dom.borrow_mut().detach(n);
                if let (Some(rc), Some(h)) = (&self.rc, self.rch(n)) {
                    rc.remove_from_parent(&h);
                }
            }
        }
        if let (false, Some(rc), Some(ph), Some(rcc)) = (self.rc_forwarded.get(), &self.rc, self.rch(*parent), self.rc_child(&c)) {
            rc.append(&ph, rcc);
        }
        self.dom.borrow_mut().append(*parent, c.clone());
        self.note_insert(c);
    }
    fn append_based_on_parent_node(&self, element: &usize, prev_element: &usize, child: NodeOrText<usize>) {
        self.note_call("append_based_on_parent_node");
        self.check_live("append_based_on_parent_node(element)", *element);
        self.check_live("append_based_on_parent_node(prev)", *prev_element);
        let has_parent = self.dom.borrow().nodes[*element].parent.is_some();
        // RcDom gets the operation as the one call the tree builder makes (it decides by its own parent link);
        // the model side is decomposed, with forwarding switched off
        let mut forwarded = false;
        if let (Some(rc), Some(eh), Some(ph)) = (&self.rc, self.rch(*element), self.rch(*prev_element)) {
            let rcc = match &child {
                NodeOrText::AppendNode(n) => self.rch(*n).map(NodeOrText::AppendNode),
                NodeOrText::AppendText(t) => Some(NodeOrText::AppendText(t.clone())),
            };
            if let Some(rcc) = rcc {
                rc.append_based_on_parent_node(&eh, &ph, rcc);
                forwarded = true;
            }
        }
        let before = self.rc_forwarded.replace(forwarded || self.rc_forwarded.get());
        if has_parent {
            self.append_before_sibling(element, child)
        } else {
            self.append(prev_element, child)
        }
        self.rc_forwarded.set(before);
    }
    fn append_doctype_to_document(&self, name: StrTendril, public_id: StrTendril, system_id: StrTendril) {
        self.note_call("append_doctype_to_document");
        self.doctypes.set(self.doctypes.get() + 1);
        if self.doctypes.get() > 1 {
            self.bad("append_doctype_to_document called twice".into());
        }
        {
            let d = self.dom.borrow();
            if d.nodes[0].children.iter().any(|&c| d.is_element(c)) && !self.xml {
                drop(d);
                self.bad("doctype appended after an element child of the document".into());
            }
        }
        let mut d = self.dom.borrow_mut();
        let id = d.add(
            Kind::Doctype { name: name.to_string(), public: public_id.to_string(), system: system_id.to_string() },
            true,
        );
        d.nodes[id].parent = Some(0);
        d.nodes[0].children.push(id);
        drop(d);
        if let Some(rc) = &self.rc {
            rc.append_doctype_to_document(name, public_id, system_id);
            let h = rc.document.children.borrow().last().cloned();
            self.push_handle(id, h, None);
        } else {
            self.push_handle(id, None, None);
        }
    }
    fn mark_script_already_started(&self, node: &usize) {
        if self.check_elem("mark_script_already_started", *node) {
            let mut d = self.dom.borrow_mut();
            if !(d.is_html(*node, "script") || d.elem(*node) == Some((SVG_NS, "script"))) {
                drop(d);
                self.bad(format!("mark_script_already_started on a non-script #{node}"));
            } else {
                d.nodes[*node].script_started = true;
            }
        }
    }
    fn pop(&self, node: &usize) {
        self.check_live("pop", *node);
        self.popped.borrow_mut().push(*node);
    }
    fn get_template_contents(&self, target: &usize) -> usize {
        self.check_elem("get_template_contents", *target);
        let d = self.dom.borrow();
        match &d.nodes[*target].kind {
            Kind::Element { template: Some(t), ns, local, .. } => {
                if !(ns == HTML_NS && local == "template") {
                    self.contract.borrow_mut().push(format!("get_template_contents on a non-template #{target}"));
                }
                *t
            },
            _ => {
                drop(d);
                self.bad(format!("get_template_contents on #{target} which has no template contents"));
                // give the caller something harmless
                let mut d = self.dom.borrow_mut();
                let f = d.add(Kind::Fragment, true);
                drop(d);
                self.push_handle(f, None, None);
                f
            },
        }
    }
    fn same_node(&self, x: &usize, y: &usize) -> bool {
        // comparing handles is a use of both nodes: a collecting sink would be handed a dangling handle
        self.check_live("same_node", *x);
        self.check_live("same_node", *y);
        x == y
    }
    fn set_quirks_mode(&self, mode: QuirksMode) {
        self.quirks.set(mode);
        self.quirks_set.set(true);
        if let Some(rc) = &self.rc {
            rc.set_quirks_mode(mode);
        }
    }
    fn append_before_sibling(&self, sibling: &usize, new_node: NodeOrText<usize>) {
        self.note_call("append_before_sibling");
        self.check_live("append_before_sibling(sibling)", *sibling);
        let (sp, is_text) = {
            let d = self.dom.borrow();
            (d.nodes[*sibling].parent, d.is_text(*sibling))
        };
        if is_text {
            self.bad(format!("append_before_sibling: reference sibling #{sibling} is a text node"));
        }
        let Some(parent) = sp else {
            self.bad(format!("append_before_sibling: sibling #{sibling} has no parent"));
            return;
        };
        let c = self.child_of("append_before_sibling", parent, &new_node);
        if let Ok(n) = c {
            if n == *sibling {
                self.bad("append_before_sibling: node inserted before itself".into());
                return;
            }
        }
        if let (false, Some(rc), Some(sh), Some(rcc)) = (self.rc_forwarded.get(), &self.rc, self.rch(*sibling), self.rc_child(&c)) {
            rc.append_before_sibling(&sh, rcc);
        }
        self.dom.borrow_mut().append_before_sibling(*sibling, c.clone());
        self.note_insert(c);
    }
    fn add_attrs_if_missing(&self, target: &usize, attrs: Vec<Attribute>) {
        self.note_call("add_attrs_if_missing");
        self.check_attrs("add_attrs_if_missing", &attrs);
        if self.check_elem("add_attrs_if_missing", *target) {
            let add: Vec<MAttr> = attrs.iter().map(MAttr::from).collect();
            if let (Some(rc), Some(h)) = (&self.rc, self.rch(*target)) {
                rc.add_attrs_if_missing(&h, attrs);
            }
            self.dom.borrow_mut().add_attrs_if_missing(*target, add);
        }
    }
    fn associate_with_form(&self, target: &usize, form: &usize, nodes: (&usize, Option<&usize>)) {
        self.check_live("associate_with_form(nodes.0)", *nodes.0);
        if let Some(n) = nodes.1 {
            self.check_live("associate_with_form(nodes.1)", *n);
        }
        if self.check_elem("associate_with_form(target)", *target) && self.check_elem("associate_with_form(form)", *form) {
            let mut d = self.dom.borrow_mut();
            if !d.is_html(*form, "form") {
                self.contract.borrow_mut().push(format!("associate_with_form: #{form} is not a form element"));
            }
            let ok = matches!(
                d.elem(*target),
                Some((HTML_NS, "button" | "fieldset" | "input" | "object" | "output" | "select" | "textarea" | "img" | "label" | "keygen"))
            );
            if !ok {
                self.contract.borrow_mut().push(format!("associate_with_form: #{target} {:?} is not form-associated", d.elem(*target)));
            }
            d.nodes[*target].form_owner = Some(*form);
        }
    }
    fn remove_from_parent(&self, target: &usize) {
        self.note_call("remove_from_parent");
        self.check_live("remove_from_parent", *target);
        if let (Some(rc), Some(h)) = (&self.rc, self.rch(*target)) {
            rc.remove_from_parent(&h);
        }
        self.dom.borrow_mut().detach(*target);
    }
    fn reparent_children(&self, node: &usize, new_parent: &usize) {
        self.note_call("reparent_children");
        self.check_live("reparent_children(node)", *node);
        self.check_live("reparent_children(new_parent)", *new_parent);
        self.can_have_children("reparent_children", *new_parent);
        {
            let d = self.dom.borrow();
            if d.is_inclusive_ancestor(*node, *new_parent) {
                drop(d);
                self.bad(format!("reparent_children: new parent #{new_parent} is #{node} or one of its descendants"));
                return;
            }
        }
        if let (Some(rc), Some(a), Some(b)) = (&self.rc, self.rch(*node), self.rch(*new_parent)) {
            rc.reparent_children(&a, &b);
        }
        self.dom.borrow_mut().reparent_children(*node, *new_parent);
    }
    fn is_mathml_annotation_xml_integration_point(&self, handle: &usize) -> bool {
        self.check_elem("is_mathml_annotation_xml_integration_point", *handle);
        matches!(self.dom.borrow().nodes[*handle].kind, Kind::Element { mathml_ip: true, .. })
    }
    fn set_current_line(&self, line: u64) {
        self.lines.borrow_mut().push(line);
    }
    fn allow_declarative_shadow_roots(&self, intended_parent: &usize) -> bool {
        self.check_live("allow_declarative_shadow_roots", *intended_parent);
        true
    }
    fn attach_declarative_shadow(&self, location: &usize, template: &usize, attrs: &[Attribute]) -> bool {
        self.shadow_calls.set(self.shadow_calls.get() + 1);
        self.check_elem("attach_declarative_shadow(location)", *location);
        self.check_elem("attach_declarative_shadow(template)", *template);
        self.check_attrs("attach_declarative_shadow", attrs);
        self.shadow_answer
    }
    fn maybe_clone_an_option_into_selectedcontent(&self, option: &usize) {
        if self.check_elem("maybe_clone_an_option_into_selectedcontent", *option) {
            if !self.dom.borrow().is_html(*option, "option") {
                self.bad(format!("maybe_clone_an_option_into_selectedcontent on a non-option #{option}"));
                return;
            }
            if let (Some(rc), Some(h)) = (&self.rc, self.rch(*option)) {
                rc.maybe_clone_an_option_into_selectedcontent(&h);
            }
            self.dom.borrow_mut().maybe_clone_option(*option);
        }
    }
}

// ---------------------------------------------------------------- RcDom comparison (C20)

/// Compare the RcDom tree under `h` with the model tree under `n`.
/// Checks kinds, names, attributes, text, children order, template contents and parent links.
/// model copy of what an RcDom holds (parent links as RcDom reports them: a child whose Weak parent
/// does not name its container gets `parent: None`)
pub fn dom_from_rcdom(doc: &RcHandle) -> Dom {
    fn go(d: &mut Dom, h: &RcHandle, me: usize) {
        let kids: Vec<RcHandle> = h.children.borrow().iter().cloned().collect();
        for k in kids {
            let kind = match &k.data {
                NodeData::Document => Kind::Fragment,
                NodeData::Doctype { name, public_id, system_id } => Kind::Doctype { name: name.to_string(), public: public_id.to_string(), system: system_id.to_string() },
                NodeData::Text { contents } => Kind::Text(contents.borrow().to_string()),
                NodeData::Comment { contents } => Kind::Comment(contents.to_string()),
                NodeData::ProcessingInstruction { target, contents } => Kind::Pi { target: target.to_string(), data: contents.to_string() },
                NodeData::Element { name, attrs, mathml_annotation_xml_integration_point, .. } => {
                    let (ns, prefix, local) = qn(name);
                    Kind::Element { ns, prefix, local, attrs: attrs.borrow().iter().map(MAttr::from).collect(), template: None, mathml_ip: *mathml_annotation_xml_integration_point, dup: false }
                },
            };
            let c = d.add(kind, true);
            let p = k.parent.take();
            let ok = p.as_ref().and_then(|w| w.upgrade()).map(|x| std::rc::Rc::ptr_eq(&x, h)).unwrap_or(false);
            k.parent.set(p);
            d.nodes[c].parent = if ok { Some(me) } else { None };
            d.nodes[me].children.push(c);
            if let NodeData::Element { template_contents, .. } = &k.data {
                if let Some(tc) = template_contents.borrow().as_ref() {
                    let f = d.add(Kind::Fragment, true);
                    d.nodes[f].host = Some(c);
                    if let Kind::Element { template, .. } = &mut d.nodes[c].kind {
                        *template = Some(f);
                    }
                    go(d, tc, f);
                }
            }
            go(d, &k, c);
        }
    }
    let mut d = Dom::new();
    go(&mut d, doc, 0);
    d
}

pub fn compare_rcdom(dom: &Dom, n: usize, h: &RcHandle, path: &str) -> Option<String> {
    let node = &dom.nodes[n];
    match (&node.kind, &h.data) {
        (Kind::Document, NodeData::Document) | (Kind::Fragment, NodeData::Document) => {},
        (Kind::Doctype { name, public, system }, NodeData::Doctype { name: n2, public_id, system_id }) => {
            if name != &n2.to_string() || public != &public_id.to_string() || system != &system_id.to_string() {
                return Some(format!("{path}: doctype differs"));
            }
        },
        (Kind::Text(t), NodeData::Text { contents }) => {
            if t != &contents.borrow().to_string() {
                return Some(format!("{path}: text model {t:?} rcdom {:?}", contents.borrow().to_string()));
            }
        },
        (Kind::Comment(t), NodeData::Comment { contents }) => {
            if t != &contents.to_string() {
                return Some(format!("{path}: comment differs"));
            }
        },
        (Kind::Pi { target, data }, NodeData::ProcessingInstruction { target: t2, contents }) => {
            if target != &t2.to_string() || data != &contents.to_string() {
                return Some(format!("{path}: PI differs"));
            }
        },
        (
            Kind::Element { ns, prefix, local, attrs, template, mathml_ip, .. },
            NodeData::Element { name, attrs: a2, template_contents, mathml_annotation_xml_integration_point },
        ) => {
            let (ns2, p2, l2) = qn(name);
            if *ns != ns2 || *prefix != p2 || *local != l2 {
                return Some(format!("{path}: element name model {ns}:{local} rcdom {ns2}:{l2}"));
            }
            let ra: Vec<MAttr> = a2.borrow().iter().map(MAttr::from).collect();
            if *attrs != ra {
                return Some(format!("{path}<{local}>: attributes model {attrs:?} rcdom {ra:?}"));
            }
            if mathml_ip != mathml_annotation_xml_integration_point {
                return Some(format!("{path}: integration point flag differs"));
            }
            match (template, template_contents.borrow().as_ref()) {
                (Some(t), Some(tc)) => {
                    if let Some(e) = compare_rcdom(dom, *t, tc, &format!("{path}/{local}#content")) {
                        return Some(e);
                    }
                },
                (None, None) => {},
                // a cloned template keeps whatever contents the clone has; only compare presence for sink-made nodes
                (None, Some(_)) if !node.by_sink => {},
                _ => return Some(format!("{path}<{local}>: template contents presence differs")),
            }
        },
        (k, d) => return Some(format!("{path}: node kind model {k:?} rcdom {d:?}")),
    }
    let rc_children = h.children.borrow();
    if rc_children.len() != node.children.len() {
        return Some(format!(
            "{path}: {} children in the model, {} in RcDom",
            node.children.len(),
            rc_children.len()
        ));
    }
    for (i, (&c, rc)) in node.children.iter().zip(rc_children.iter()).enumerate() {
        // parent link must name exactly the node whose child list contains it
        let p = rc.parent.take();
        let ok = match &p {
            Some(w) => w.upgrade().map(|x| std::rc::Rc::ptr_eq(&x, h)).unwrap_or(false),
            None => false,
        };
        rc.parent.set(p);
        if !ok {
            return Some(format!("{path}/[{i}]: RcDom parent link does not name the node whose child list contains it"));
        }
        if let Some(e) = compare_rcdom(dom, c, rc, &format!("{path}/[{i}]")) {
            return Some(e);
        }
    }
    None
}
