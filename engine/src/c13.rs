//! C13: BufferQueue vs a Vec<String> partition model; closed product graph.
use crate::bfs::*;
use crate::common::*;
use markup5ever::buffer_queue::{BufferQueue, SetResult};
use markup5ever::SmallCharSet;
use serde_json::json;
use tendril::StrTendril;

#[derive(Clone, Debug)]
pub enum Op {
    PushBack(&'static str),
    PushFront(&'static str),
    Next,
    Peek,
    PopFront,
    PopExcept(&'static str),
    Eat(&'static str, bool),
    /// pop_except_from(set) and push the result straight back with push_front (what a tokenizer does to
    /// un-consume): the pushed tendril shares its allocation with the front buffer when the run is long
    Unconsume(&'static str),
    /// peek_front_chunk_mut: the chunk must be the first buffer; take its first character through the
    /// mutable reference (and pop the buffer if that empties it), as the data-state fast path does
    FrontChunk,
    /// swap_with a second queue (the state is the pair of queues)
    Swap,
    /// replace_with the second queue's buffers (the second queue is left empty)
    Replace,
}

pub const LONG: &str = "ababababab<ababababab&";

pub fn alphabet() -> Vec<Op> {
    let mut v = vec![];
    // '|' = '<' + 64 and 'f' = '&' + 64 alias the set members in a 64-bit set; 3- and 4-byte characters
    for s in ["a", "<", "ab", "", "\u{e9}", "a<", "Ab", "&b", LONG, "b", "|f", "\u{20ac}<", "\u{1f600}a"] {
        v.push(Op::PushBack(s));
    }
    for s in ["a", "<", "ab", "", "\u{e9}", "a<", "Ab"] {
        v.push(Op::PushFront(s));
    }
    v.push(Op::Next);
    v.push(Op::Peek);
    v.push(Op::PopFront);
    for set in ["<", "<&", ""] {
        v.push(Op::PopExcept(set));
    }
    for set in ["<", "&"] {
        v.push(Op::Unconsume(set));
    }
    for p in ["a", "ab", "aba", "<a", "\u{e9}", "a<", "AB", "|", "\u{20ac}<"] {
        v.push(Op::Eat(p, false));
        v.push(Op::Eat(p, true));
    }
    v.push(Op::FrontChunk);
    v.push(Op::Swap);
    v.push(Op::Replace);
    v
}

fn set_of(s: &str) -> SmallCharSet {
    let mut bits = 0u64;
    for b in s.bytes() {
        assert!(b < 64);
        bits |= 1 << b;
    }
    SmallCharSet { bits }
}

pub struct Model {
    pub chunks: Vec<String>,
    /// the second queue (Swap / Replace)
    pub other: Vec<String>,
}

#[derive(PartialEq, Debug)]
pub enum Ret {
    Unit,
    Ch(Option<char>),
    Buf(Option<String>),
    Set(Option<Result<char, String>>),
    Eat(Option<bool>),
}

fn beq(ci: bool, a: u8, b: u8) -> bool {
    if ci {
        a.eq_ignore_ascii_case(&b)
    } else {
        a == b
    }
}

impl Model {
    pub fn total(&self) -> usize {
        self.chunks.iter().map(|c| c.chars().count()).sum()
    }
    pub fn apply(&mut self, op: &Op) -> Ret {
        match op {
            Op::PushBack(s) => {
                if !s.is_empty() {
                    self.chunks.push(s.to_string());
                }
                Ret::Unit
            },
            Op::PushFront(s) => {
                if !s.is_empty() {
                    self.chunks.insert(0, s.to_string());
                }
                Ret::Unit
            },
            Op::Peek => Ret::Ch(self.chunks.first().map(|c| c.chars().next().unwrap())),
            Op::Next => {
                if self.chunks.is_empty() {
                    return Ret::Ch(None);
                }
                let c = self.chunks[0].remove(0);
                if self.chunks[0].is_empty() {
                    self.chunks.remove(0);
                }
                Ret::Ch(Some(c))
            },
            Op::PopFront => {
                if self.chunks.is_empty() {
                    Ret::Buf(None)
                } else {
                    Ret::Buf(Some(self.chunks.remove(0)))
                }
            },
            Op::PopExcept(set) => {
                if self.chunks.is_empty() {
                    return Ret::Set(None);
                }
                let first = self.chunks[0].chars().next().unwrap();
                if set.contains(first) {
                    self.chunks[0].remove(0);
                    if self.chunks[0].is_empty() {
                        self.chunks.remove(0);
                    }
                    Ret::Set(Some(Ok(first)))
                } else {
                    let n = self.chunks[0]
                        .char_indices()
                        .find(|(_, c)| set.contains(*c))
                        .map(|(i, _)| i)
                        .unwrap_or(self.chunks[0].len());
                    let run: String = self.chunks[0].drain(..n).collect();
                    if self.chunks[0].is_empty() {
                        self.chunks.remove(0);
                    }
                    Ret::Set(Some(Err(run)))
                }
            },
            Op::Unconsume(set) => {
                match self.apply(&Op::PopExcept(set)) {
                    Ret::Set(Some(Ok(c))) => {
                        self.chunks.insert(0, c.to_string());
                        Ret::Set(Some(Ok(c)))
                    },
                    Ret::Set(Some(Err(run))) => {
                        self.chunks.insert(0, run.clone());
                        Ret::Set(Some(Err(run)))
                    },
                    r => r,
                }
            },
            Op::FrontChunk => {
                if self.chunks.is_empty() {
                    return Ret::Buf(None);
                }
                let whole = self.chunks[0].clone();
                self.chunks[0].remove(0);
                if self.chunks[0].is_empty() {
                    self.chunks.remove(0);
                }
                Ret::Buf(Some(whole))
            },
            Op::Swap => {
                std::mem::swap(&mut self.chunks, &mut self.other);
                Ret::Unit
            },
            Op::Replace => {
                self.chunks = std::mem::take(&mut self.other);
                Ret::Unit
            },
            Op::Eat(pat, ci) => {
                let all: Vec<u8> = self.chunks.concat().into_bytes();
                let p = pat.as_bytes();
                let n = all.len().min(p.len());
                let pref = (0..n).all(|i| beq(*ci, all[i], p[i]));
                if !pref {
                    return Ret::Eat(Some(false));
                }
                if all.len() < p.len() {
                    return Ret::Eat(None);
                }
                // consume p.len() bytes from the front of the partition
                let mut left = p.len();
                while left > 0 {
                    let l = self.chunks[0].len();
                    if l <= left {
                        self.chunks.remove(0);
                        left -= l;
                    } else {
                        self.chunks[0].drain(..left);
                        left = 0;
                    }
                }
                Ret::Eat(Some(true))
            },
        }
    }
}

pub fn apply_real(q: &BufferQueue, q2: &BufferQueue, op: &Op) -> Ret {
    match op {
        Op::FrontChunk => {
            let Some(mut front) = q.peek_front_chunk_mut() else { return Ret::Buf(None) };
            let whole = front.to_string();
            front.pop_front_char();
            let now_empty = front.is_empty();
            drop(front);
            if now_empty {
                q.pop_front();
            }
            Ret::Buf(Some(whole))
        },
        Op::Swap => {
            q.swap_with(q2);
            Ret::Unit
        },
        Op::Replace => {
            let taken = BufferQueue::default();
            taken.swap_with(q2);
            q.replace_with(taken);
            Ret::Unit
        },
        Op::PushBack(s) => {
            q.push_back(StrTendril::from_slice(s));
            Ret::Unit
        },
        Op::PushFront(s) => {
            q.push_front(StrTendril::from_slice(s));
            Ret::Unit
        },
        Op::Peek => Ret::Ch(q.peek()),
        Op::Next => Ret::Ch(q.next()),
        Op::PopFront => Ret::Buf(q.pop_front().map(|t| t.to_string())),
        Op::PopExcept(set) => Ret::Set(q.pop_except_from(set_of(set)).map(|r| match r {
            SetResult::FromSet(c) => Ok(c),
            SetResult::NotFromSet(t) => Err(t.to_string()),
        })),
        Op::Unconsume(set) => match q.pop_except_from(set_of(set)) {
            None => Ret::Set(None),
            Some(SetResult::FromSet(c)) => {
                q.push_front(StrTendril::from_char(c));
                Ret::Set(Some(Ok(c)))
            },
            Some(SetResult::NotFromSet(t)) => {
                let s = t.to_string();
                q.push_front(t);
                Ret::Set(Some(Err(s)))
            },
        },
        Op::Eat(pat, ci) => Ret::Eat(if *ci {
            q.eat(pat, u8::eq_ignore_ascii_case)
        } else {
            q.eat(pat, u8::eq)
        }),
    }
}

/// observable state of the real queue: partition plus representation class
pub fn observe(q: &BufferQueue) -> Vec<(String, bool)> {
    let c = q.clone();
    let mut v = vec![];
    // the clone shares buffers with q, so is_shared would be trivially true;
    // representation class = heap vs inline by length > 8
    while let Some(t) = c.pop_front() {
        v.push((t.to_string(), t.len32() > 8));
    }
    v
}

pub fn run_history(ops: &[Op], h: &[u16], cap: usize) -> Result<Option<u128>, (String, String)> {
    let q = BufferQueue::default();
    let q2 = BufferQueue::default();
    let mut m = Model { chunks: vec![], other: vec![] };
    for (i, &s) in h.iter().enumerate() {
        let op = &ops[s as usize];
        if let Op::Swap | Op::Replace = op {
            // the pair of queues squares the state space: at most two exchanges per history
            if h[..i].iter().filter(|&&p| matches!(ops[p as usize], Op::Swap | Op::Replace)).count() >= 2 {
                return Ok(None);
            }
        }
        if let Op::PushBack(x) | Op::PushFront(x) = op {
            // one long (heap) buffer per history, accompanied by at most two short pushes; otherwise the cap
            let is_long = |y: &str| y.chars().count() > 8;
            let longs = h[..i].iter().filter(|&&p| matches!(ops[p as usize], Op::PushBack(y) | Op::PushFront(y) if is_long(y))).count();
            let shorts = h[..i].iter().filter(|&&p| matches!(ops[p as usize], Op::PushBack(y) | Op::PushFront(y) if !is_long(y))).count();
            if is_long(x) {
                if longs > 0 || shorts > 2 {
                    return Ok(None);
                }
            } else if longs > 0 {
                if shorts >= 2 {
                    return Ok(None);
                }
            } else if m.total() + m.other.iter().map(|c| c.chars().count()).sum::<usize>() + x.chars().count() > cap {
                return Ok(None);
            }
        }
        let last = i + 1 == h.len();
        let want = m.apply(op);
        let got = match guarded(|| apply_real(&q, &q2, op)) {
            Ok(g) => g,
            Err(p) => return Err(("panic".into(), format!("op {op:?} panicked: {p}"))),
        };
        if last {
            if want != got {
                return Err((
                    "return-value".into(),
                    format!("op {op:?}: model {want:?} real {got:?}"),
                ));
            }
            let obs = observe(&q);
            let part: Vec<String> = obs.iter().map(|x| x.0.clone()).collect();
            if part != m.chunks {
                return Err((
                    "partition".into(),
                    format!("after {op:?}: model {:?} real {:?}", m.chunks, part),
                ));
            }
            if part.iter().any(|p| p.is_empty()) {
                return Err(("empty-buffer".into(), format!("after {op:?}: {part:?}")));
            }
            if q.is_empty() != m.chunks.is_empty() {
                return Err(("is_empty".into(), format!("after {op:?}")));
            }
            let part2: Vec<String> = observe(&q2).into_iter().map(|x| x.0).collect();
            if part2 != m.other {
                return Err(("partition".into(), format!("after {op:?}: second queue: model {:?} real {:?}", m.other, part2)));
            }
        }
    }
    let obs = observe(&q);
    let obs2 = observe(&q2);
    let exchanges = h.iter().filter(|&&p| matches!(ops[p as usize], Op::Swap | Op::Replace)).count();
    // everything the enabling conditions read from the history is part of the state
    let is_long = |y: &str| y.chars().count() > 8;
    let longs = h.iter().filter(|&&p| matches!(ops[p as usize], Op::PushBack(y) | Op::PushFront(y) if is_long(y))).count();
    let shorts = h.iter().filter(|&&p| matches!(ops[p as usize], Op::PushBack(y) | Op::PushFront(y) if !is_long(y))).count();
    let push_class = if longs > 0 { 10 + shorts.min(2) } else { shorts.min(3) };
    Ok(Some(digest(&(obs, obs2, exchanges, push_class))))
}

pub fn render(ops: &[Op], h: &[u16]) -> String {
    h.iter()
        .map(|&s| format!("{:?}", ops[s as usize]))
        .collect::<Vec<_>>()
        .join("; ")
}

/// every Unicode scalar value as queue content: pop_except_from with the sets the tokenizers use
/// (a 64-bit set must not confuse a character with a member it is congruent to), next/peek, and eat
/// with and without ASCII case folding; buffers [x c y] and [x c][y]
pub fn scalar_sweep(ctx: &Ctx) -> u64 {
    use rayon::prelude::*;
    const SETS: &[&str] = &["<&", "\r\0&<\n", "\t\n\x0c \"&\'/<=>\r\0", "-\0\r\n", "", " !#$%()*+,.0123456789:;?"];
    fn expect(bufs: &[String], set: &str) -> Vec<Result<char, String>> {
        let mut out = vec![];
        for b in bufs {
            let mut run = String::new();
            for ch in b.chars() {
                if set.contains(ch) {
                    if !run.is_empty() {
                        out.push(Err(std::mem::take(&mut run)));
                    }
                    out.push(Ok(ch));
                } else {
                    run.push(ch);
                }
            }
            if !run.is_empty() {
                out.push(Err(run));
            }
        }
        out
    }
    let n = std::sync::atomic::AtomicU64::new(0);
    (0u32..=0x10FFFF).into_par_iter().for_each(|cp| {
        let Some(c) = char::from_u32(cp) else { return };
        let mut k = 0u64;
        for bufs in [vec![format!("x{c}y")], vec![format!("x{c}"), "y".to_string()], vec![c.to_string()]] {
            for set in SETS {
                k += 1;
                let r = guarded(|| {
                    let q = BufferQueue::default();
                    for b in &bufs {
                        q.push_back(StrTendril::from_slice(b));
                    }
                    let mut got = vec![];
                    while let Some(r) = q.pop_except_from(set_of(set)) {
                        got.push(match r {
                            SetResult::FromSet(c) => Ok(c),
                            SetResult::NotFromSet(t) => Err(t.to_string()),
                        });
                        if got.len() > 16 {
                            break;
                        }
                    }
                    got
                });
                let want = expect(&bufs, set);
                match r {
                    Ok(got) if got == want => {},
                    Ok(got) => {
                        ctx.violation("return-value", &format!("sweep pop_except_from set={set:?} buffers={bufs:?}"), json!({"message": format!("model {want:?} real {got:?}")}));
                    },
                    Err(p) => {
                        ctx.violation("panic", &format!("sweep pop_except_from set={set:?} buffers={bufs:?}"), json!({"message": p}));
                    },
                }
            }
            let bufs2 = bufs.clone();
            let r = guarded(|| {
                let bufs = bufs2;
                let mut k = 0u64;
            // next/peek deliver the characters in order
                k += 1;
                let q = BufferQueue::default();
                for b in &bufs {
                    q.push_back(StrTendril::from_slice(b));
                }
                let all: String = bufs.concat();
                let mut got = String::new();
                loop {
                    let p = q.peek();
                    let nx = q.next();
                    if p != nx {
                        ctx.violation("return-value", &format!("sweep peek/next buffers={bufs:?}"), json!({"message": format!("peek {p:?} next {nx:?}")}));
                    }
                    match nx {
                        Some(ch) => got.push(ch),
                        None => break,
                    }
                }
                if got != all {
                    ctx.violation("return-value", &format!("sweep next buffers={bufs:?}"), json!({"message": format!("model {all:?} real {got:?}")}));
                }
                // eat: the text itself matches; an ASCII letter pattern matches only itself (or its other case when folding)
                for ci in [false, true] {
                    for pat in [all.clone(), "xAy".to_string(), "xay".to_string(), "A".to_string(), "k".to_string(), "K".to_string(), "\u{212a}".to_string()] {
                        k += 1;
                        let q = BufferQueue::default();
                        for b in &bufs {
                            q.push_back(StrTendril::from_slice(b));
                        }
                        let got = if ci { q.eat(&pat, u8::eq_ignore_ascii_case) } else { q.eat(&pat, u8::eq) };
                        let (ab, pb) = (all.as_bytes(), pat.as_bytes());
                        let m = ab.len().min(pb.len());
                        let prefix_ok = (0..m).all(|i| beq(ci, ab[i], pb[i]));
                        let want = if !prefix_ok { Some(false) } else if ab.len() < pb.len() { None } else { Some(true) };
                        let mut rest = String::new();
                        while let Some(ch) = q.next() {
                            rest.push(ch);
                        }
                        let want_rest = if want == Some(true) { all[pat.len()..].to_string() } else { all.clone() };
                        if got != want || rest != want_rest {
                            ctx.violation("return-value", &format!("sweep eat pattern={pat:?} fold={ci} buffers={bufs:?}"), json!({"message": format!("model {want:?} rest {want_rest:?}; real {got:?} rest {rest:?}")}));
                        }
                    }
                }
        
                k
            });
            match r {
                Ok(kk) => k += kk,
                Err(p) => {
                    ctx.violation("panic", &format!("sweep next/peek/eat buffers={bufs:?}"), json!({"message": p}));
                },
            }
        }
        n.fetch_add(k, std::sync::atomic::Ordering::Relaxed);
    });
    n.load(std::sync::atomic::Ordering::Relaxed)
}

pub fn main(ctx: &Ctx) -> ! {
    let sweep = scalar_sweep(ctx);
    let ops = alphabet();
    let cap = ctx.tier.pick(6, 10);
    let cfg = BfsCfg {
        max_depth: 64,
        max_states: 50_000_000,
        max_secs: ctx.tier.pick(400.0, 600.0),
    };
    let samples = Samples::new(4);
    let root = run_history(&ops, &[], cap).unwrap().unwrap();
    let mut distinct_ret = std::collections::BTreeSet::new();
    let out = bfs(
        vec![(vec![], root)],
        ops.len(),
        &cfg,
        |h, s| {
            let mut nh = h.to_vec();
            nh.push(s);
            match run_history(&ops, &nh, cap) {
                Ok(None) => Step::Disabled,
                Ok(Some(k)) => Step::Next(k),
                Err((kind, msg)) => {
                    ctx.violation(&kind, &render(&ops, &nh), json!({ "message": msg }));
                    Step::Violation
                },
            }
        },
        |h, d| {
            if d > 0 && d <= 3 {
                distinct_ret.insert(h[h.len() - 1]);
            }
            if d == 3 {
                samples.offer(|| json!(render(&ops, h)));
            }
        },
    );
    samples.force(json!({"deepest": render(&ops, &out.deepest)}));
    let dead: Vec<String> = out.symbol_uses.iter().enumerate().filter(|(_, n)| **n == 0).map(|(i, _)| format!("{:?}", ops[i])).collect();
    if !dead.is_empty() {
        machinery(&format!("dead alphabet symbols (never enabled): {dead:?}"));
    }
    ctx.assume("content alphabet {a,b,A,<,&,|,f,e-acute,euro sign,U+1F600}; total queued short text capped, plus at most one long (heap-allocated, 22 characters) buffer per history accompanied by at most two short pushes, so the graph is finite");
    ctx.assume("state key = buffer partition + heap/inline class of each buffer");
    ctx.finish(
        "model_checking",
        json!({
            "states": out.states,
            "transitions": out.transitions,
            "traces_validated_against_impl": out.transitions,
            "max_depth": out.max_depth,
            "exhaustive": out.closed,
            "capped_by": out.capped_by,
            "content_cap_chars": cap,
            "alphabet_size": ops.len(),
            "scalar_sweep_evaluations": sweep,
            "level_sizes": out.level_sizes,
            "rule": "product BFS of (real BufferQueue, Vec<String> model); every transition compares return value and full partition",
            "samples": samples.take(),
        }),
    )
}

pub fn replay(ctx: &Ctx, witness: &str) {
    if witness.starts_with("sweep ") {
        // the sweep is cheap and deterministic: re-run it whole
        scalar_sweep(ctx);
        return;
    }
    let ops = alphabet();
    let names: Vec<String> = ops.iter().map(|o| format!("{o:?}")).collect();
    let h: Vec<u16> = witness
        .split("; ")
        .filter(|s| !s.is_empty())
        .map(|s| names.iter().position(|n| n == s).expect("unknown op") as u16)
        .collect();
    match run_history(&ops, &h, 1000) {
        Ok(_) => println!("replay: history passes"),
        Err((k, m)) => {
            ctx.violation(&k, witness, json!({ "message": m }));
        },
    }
}
