//! E2: explicit-state search at tree level (real tokenizer + tree builder into
//! the monitored model sink). A state is the lexeme history; key = (tokenizer
//! dump, tree-builder dump in terms of model node ids, model DOM).
//! Serves C04, C05, C06, C18, C20 (oracles that need no reference parser) and
//! C02 (with R-tree, see c02.rs).
use crate::bfs::*;
use crate::common::*;
use crate::dom::*;
use crate::tokh::Feed;
use crate::treeh::*;
use serde_json::json;
use std::collections::BTreeSet;
use std::sync::atomic::{AtomicU64, Ordering};
use std::sync::Mutex;

/// Σ_tree: one lexeme per rule-equivalence class of tag names (see DESIGN.md C02)
pub fn sigma_full() -> Vec<&'static str> {
    let mut v = vec![
        // text / misc
        "x", " ", "\n", "\0", "<!--c-->", "<!DOCTYPE html>", "\t", "\x0C", "\r", "\u{a0}", "\x0B", "\u{3000}",
        // a CARRIAGE RETURN character token (a literal CR never reaches the tree builder: only a character reference does)
        "&#13;",
        // one character token with several whitespace / non-whitespace runs (split repeatedly by the builder)
        "y z", " y z ",
        // structure
        "<html>", "<head>", "<body>", "</head>", "</body>", "</html>",
        // ordinary / special blocks
        "<p>", "</p>", "<div>", "</div>", "<span>", "</span>", "<address>", "<h1>", "<h2>", "</h1>",
        "<ul>", "</ul>", "<li>", "</li>", "<dd>", "<dt>", "</dd>", "<pre>", "<listing>", "</pre>",
        // formatting
        "<a>", "</a>", "<b>", "</b>", "<i>", "</i>", "<nobr>", "</nobr>", "<font color=r>", "<font>", "</font>", "<em>",
        // scoping
        "<button>", "</button>", "<applet>", "</applet>", "<marquee>", "<object>", "</object>",
        // tables
        "<table>", "</table>", "<caption>", "</caption>", "<colgroup>", "</colgroup>", "<col>", "<tbody>", "</tbody>",
        "<thead>", "<tfoot>", "<tr>", "</tr>", "<td>", "</td>", "<th>", "</th>",
        // forms
        "<form>", "</form>", "<input>", "<input type=hidden>", "<textarea>", "</textarea>", "<fieldset>",
        // select family
        "<select>", "</select>", "<option>", "<option selected>", "</option>", "<optgroup>", "</optgroup>", "<selectedcontent>",
        "</selectedcontent>", "<hr>", "<select multiple>", "<datalist>",
        // void / head
        "<br>", "</br>", "<img>", "<image>", "<wbr>", "<embed>", "<param>", "<area>", "<keygen>",
        "<meta>", "<meta charset=x>", "<link>", "<base>", "<basefont>", "<bgsound>",
        // raw text / rcdata / script / plaintext
        "<title>", "</title>", "<style>", "</style>", "<script>", "</script>", "<noscript>", "</noscript>",
        "<xmp>", "</xmp>", "<iframe>", "</iframe>", "<noembed>", "<noframes>", "</noframes>", "<plaintext>",
        // templates
        "<template>", "</template>", "<template shadowrootmode=open>",
        // frames
        "<frameset>", "</frameset>", "<frame>",
        // ruby
        "<ruby>", "</ruby>", "<rb>", "<rt>", "<rp>", "<rtc>",
        // foreign content
        "<svg>", "</svg>", "<svg/>", "<math>", "</math>", "<foreignObject>", "</foreignObject>", "<desc>", "<mi>", "</mi>", "<mglyph>",
        "<malignmark>", "<annotation-xml>", "<annotation-xml encoding=text/html>", "<annotation-xml encoding=APPLICATION/XHTML+XML>",
        "</annotation-xml>", "<![CDATA[x]]>", "<g>", "</g>", "<altGlyph>",
        // attributes the rules read
        "<div id=a>", "<html lang=en>", "<body class=b>", "<a href=x x x>", "<div/>", "<br/>", "<search>", "<dialog>", "<menu>", "<details>",
        "<isindex>", "</x>", "<x>", "<main>", "<ol>", "<center>", "<sub>", "</sarcasm>",
    ];
    v.dedup();
    v
}

/// every element name the HTML standard's tree-construction rules mention by name, plus a few that it
/// does not (ordinary elements); used by job J5 so that a slip in any tag set is within reach even when
/// the name is not a class representative of Sigma_tree
pub const ALL_NAMES: &[&str] = &[
    "a", "abbr", "address", "applet", "area", "article", "aside", "b", "base", "basefont", "bgsound", "big", "blockquote", "body", "br",
    "button", "caption", "center", "code", "col", "colgroup", "dd", "details", "dialog", "dir", "div", "dl", "dt", "em", "embed", "fieldset",
    "figcaption", "figure", "font", "footer", "form", "frame", "frameset", "h1", "h2", "h3", "h4", "h5", "h6", "head", "header", "hgroup",
    "hr", "html", "i", "iframe", "image", "img", "input", "keygen", "li", "link", "listing", "main", "marquee", "math", "menu", "meta", "nav",
    "nobr", "noembed", "noframes", "noscript", "object", "ol", "optgroup", "option", "p", "param", "plaintext", "pre", "rb", "rp", "rt", "rtc",
    "ruby", "s", "script", "search", "section", "select", "selectedcontent", "small", "source", "span", "strike", "strong", "style", "sub",
    "summary", "sup", "svg", "table", "tbody", "td", "template", "textarea", "tfoot", "th", "thead", "title", "tr", "track", "tt", "u", "ul",
    "var", "wbr", "xmp", "mi", "mo", "mn", "ms", "mtext", "annotation-xml", "mglyph", "malignmark", "foreignobject", "desc", "g", "datalist",
    "label", "output", "video", "x-y",
];

/// families with no spec oracle available offline (excluded from C02 only)
pub fn is_c02_excluded(lex: &str) -> bool {
    ["select", "option", "optgroup", "selectedcontent", "hr", "keygen", "isindex", "search", "dialog", "datalist"]
        .iter()
        .any(|n| lex.starts_with(&format!("<{n}>")) || lex.starts_with(&format!("<{n} ")) || lex.starts_with(&format!("</{n}>")))
}

pub fn render(lex: &[&str], h: &[u16]) -> String {
    h.iter().map(|&s| lex[s as usize]).collect()
}
pub fn sched_of(lex: &[&str], prefix: &[&str], h: &[u16]) -> Vec<Feed> {
    prefix
        .iter()
        .map(|s| Feed::Chunk(s.to_string()))
        .chain(h.iter().map(|&s| Feed::Chunk(lex[s as usize].to_string())))
        .collect()
}

pub fn witness(cfg: &TreeCfg, sched: &[Feed], env: &Env) -> String {
    let chunks: Vec<String> = sched
        .iter()
        .map(|f| match f {
            Feed::Chunk(s) => format!("{s:?}"),
            Feed::Empty => "<empty>".into(),
        })
        .collect();
    let mut s = format!("{} chunks=[{}]", cfg.describe(), chunks.join(","));
    if env.gc {
        s.push_str(" gc");
    }
    if !env.detach.is_empty() {
        s.push_str(&format!(" detach={:?}", env.detach));
    }
    if !env.inject.is_empty() {
        s.push_str(&format!(" inject={:?}", env.inject));
    }
    if !env.detach_role.is_empty() {
        s.push_str(&format!(" detach_role={:?}", env.detach_role));
    }
    s
}

#[derive(Clone, Copy, PartialEq)]
pub enum Prop {
    C02,
    C04,
    C05,
    C06,
    C18,
    C20,
}

pub struct Job {
    pub name: String,
    pub cfg: TreeCfg,
    pub prefix: Vec<&'static str>,
    pub sigma: Vec<&'static str>,
    pub depth: usize,
}

pub struct Stats {
    pub execs: AtomicU64,
    pub outcomes: Mutex<BTreeSet<u128>>,
    pub sink_calls_checked: AtomicU64,
    pub collected: AtomicU64,
}

/// The one mechanism by which the WHATWG algorithm itself leaves the skeleton (known finding, DESIGN.md
/// §8.3b): whitespace in the "after after frameset" mode is processed with the in-body rules, which
/// reconstruct the active formatting elements under `html`. It is recognised by its result: a frameset
/// document whose only surplus children of `html` are formatting elements.
fn skeleton_kind(msg: &str) -> String {
    const FMT: &[&str] = &["a", "b", "big", "code", "em", "font", "i", "nobr", "s", "small", "strike", "strong", "tt", "u"];
    if let Some(list) = msg.strip_prefix("element children of html are ") {
        let names: Vec<String> = list.trim_matches(|c| c == '[' || c == ']').split(", ").map(|s| s.trim_matches('"').to_string()).collect();
        if names.len() > 2 && names[0] == "head" && names[1] == "frameset" {
            let rest: Vec<&String> = names[2..].iter().filter(|n| *n != "noframes").collect();
            if !rest.is_empty() && rest.iter().all(|n| FMT.contains(&n.as_str())) {
                return "skeleton-formatting-reconstructed-after-after-frameset".into();
            }
        }
    }
    "skeleton".into()
}

/// All oracle clauses of one execution. Returns (kind, message) of the first failure.
pub fn judge(prop: Prop, cfg: &TreeCfg, out: &Result<TreeOut, String>) -> Option<(String, String)> {
    let o = match out {
        Err(p) => {
            // a panic is a C04 violation; the other properties report only their own clause
            return if prop == Prop::C04 { Some(("panic".into(), p.clone())) } else { None };
        },
        Ok(o) => o,
    };
    let sink = o.sink.as_ref().unwrap();
    match prop {
        Prop::C02 => {},
        Prop::C04 => {
            if let Some(p) = o.problems.first() {
                return Some(("totality".into(), p.clone()));
            }
        },
        Prop::C05 => {
            if let Some(c) = sink.contract.borrow().iter().find(|c| !c.contains("collected")) {
                return Some(("contract".into(), c.clone()));
            }
        },
        Prop::C18 => {
            if let Some(c) = sink.contract.borrow().iter().find(|c| c.contains("collected")) {
                return Some(("untraced-node-used".into(), c.clone()));
            }
        },
        Prop::C06 => {
            if cfg.fragment.is_none() {
                if let Some(m) = skeleton_check(&sink.dom.borrow()) {
                    return Some((skeleton_kind(&m), m));
                }
                // the same predicate on the tree the reference sink (RcDom) materialised
                if let Some(rc) = &sink.rc {
                    if let Some(m) = skeleton_check(&dom_from_rcdom(&rc.document)) {
                        return Some(("skeleton-rcdom".into(), m));
                    }
                }
            }
        },
        Prop::C20 => {
            if let Some(rc) = &sink.rc {
                if let Some(m) = compare_rcdom(&sink.dom.borrow(), 0, &rc.document, "") {
                    return Some(("rcdom-differs".into(), m));
                }
                if let Some(m) = crate::c20::serialize_visit_check(&sink.dom.borrow(), rc) {
                    return Some(("serialize-order".into(), m));
                }
                if let Some(m) = crate::c20::detached_links_check(sink) {
                    return Some(("parent-link".into(), m));
                }
            }
        },
    }
    None
}

pub fn explore(ctx: &Ctx, prop: Prop, job: &Job, env: &Env, stats: &Stats, max_secs: f64) -> BfsOut {
    let lex = &job.sigma;
    let bcfg = BfsCfg { max_depth: job.depth, max_states: 80_000_000, max_secs };
    let has_roles = lex.iter().any(|l| l.starts_with('@'));
    let env_of = |h: &[u16]| -> Option<(Env, Vec<Feed>)> {
        if !has_roles {
            return Some((env.clone(), sched_of(lex, &job.prefix, h)));
        }
        let mut e = env.clone();
        let mut sched: Vec<Feed> = job.prefix.iter().map(|s| Feed::Chunk(s.to_string())).collect();
        for &s in h {
            let l = lex[s as usize];
            if let Some(role) = l.strip_prefix('@') {
                if sched.is_empty() {
                    return None;
                }
                e.detach_role.push((sched.len() - 1, role.parse().unwrap()));
            } else {
                sched.push(Feed::Chunk(l.to_string()));
            }
        }
        Some((e, sched))
    };
    let run = |h: &[u16]| -> (Result<TreeOut, String>, Vec<Feed>, Env) {
        match env_of(h) {
            None => (Err("disabled".into()), vec![], env.clone()),
            Some((e, sched)) => {
                let r = guarded(|| run_tree(&job.cfg, &sched, &e, true));
                (r, sched, e)
            },
        }
    };
    let key_of = |o: &TreeOut| -> u128 {
        // state before end(): tree-builder dump + DOM as it was... the final DOM
        // (after end) is a function of that state, so it is not part of the key
        digest(&(&o.tb_key, &o.pre_end_dom, &o.tok_key))
    };
    let (r0, _, _) = run(&[]);
    let root = match &r0 {
        Ok(o) => key_of(o),
        Err(_) => 0,
    };
    bfs(
        vec![(vec![], root)],
        lex.len(),
        &bcfg,
        |h, s| {
            let mut nh = h.to_vec();
            nh.push(s);
            if has_roles && env_of(&nh).is_none() {
                return Step::Disabled;
            }
            let (r, sched, env) = run(&nh);
            let env = &env;
            if has_roles && lex[s as usize].starts_with('@') {
                // a script action that detached nothing is not a transition
                if let Ok(o) = &r {
                    if o.role_detached.last() != Some(&true) {
                        return Step::Disabled;
                    }
                }
            }
            stats.execs.fetch_add(1, Ordering::Relaxed);
            if let Some((kind, msg)) = judge(prop, &job.cfg, &r) {
                ctx.violation(&kind, &witness(&job.cfg, &sched, env), json!({"message": msg, "job": job.name, "input": render(lex, &nh)}));
                return Step::Violation;
            }
            // product key: (implementation state, reference state). Merging on the implementation state
            // alone would drop a history whose reference state differs from the first one seen
            let mut ref_key = 0u128;
            if prop == Prop::C02 {
                if let Ok(o) = &r {
                    let input = format!("{}{}", job.prefix.concat(), render(lex, &nh));
                    let (verdict, rk) = crate::c02::compare_keyed(&job.cfg, &input, o);
                    ref_key = rk;
                    if let Some((kind, msg)) = verdict {
                        ctx.violation(&kind, &witness(&job.cfg, &sched, env), json!({"message": msg, "job": job.name, "input": input}));
                        return Step::Violation;
                    }
                }
            }
            match r {
                Ok(o) => {
                    stats.collected.fetch_add(o.collected as u64, Ordering::Relaxed);
                    Step::Next(if prop == Prop::C02 { digest(&(key_of(&o), ref_key)) } else { key_of(&o) })
                },
                Err(_) => Step::Violation, // a panic is reported by C04 only; no successor state
            }
        },
        |_h, _d| {},
    )
}

pub fn doc_cfgs(tier: Tier) -> Vec<(String, TreeCfg)> {
    let mut v = vec![("doc".to_string(), TreeCfg::default())];
    v.push(("doc-noscript".into(), TreeCfg { scripting: false, ..Default::default() }));
    if tier == Tier::Thorough {
        v.push(("doc-srcdoc".into(), TreeCfg { iframe_srcdoc: true, ..Default::default() }));
        v.push(("doc-quirks".into(), TreeCfg { quirks: 2, ..Default::default() }));
        v.push(("doc-shadow".into(), TreeCfg { shadow_answer: true, ..Default::default() }));
    }
    v
}

pub fn mode_witnesses() -> Vec<Vec<&'static str>> {
    vec![
        vec!["<table>"],
        vec!["<table>", "<tr>"],
        vec!["<table>", "<tr>", "<td>"],
        vec!["<table>", "<caption>"],
        vec!["<table>", "<colgroup>"],
        vec!["<table>", "x"],
        vec!["<template>"],
        vec!["<template>", "<tr>"],
        vec!["<template>", "<td>"],
        vec!["<template shadowrootmode=open>"],
        vec!["<frameset>"],
        vec!["<frameset>", "</frameset>"],
        vec!["<frameset>", "</frameset>", "</html>"],
        vec!["</html>"],
        vec!["</body>"],
        vec!["<head>"],
        vec!["<head>", "<noscript>"],
        vec!["<head>", "</head>"],
        vec!["<title>"],
        vec!["<textarea>"],
        vec!["<script>"],
        vec!["<style>"],
        vec!["<plaintext>"],
        vec!["<svg>"],
        vec!["<svg>", "<foreignObject>"],
        vec!["<svg>", "<desc>"],
        vec!["<math>"],
        vec!["<math>", "<mi>"],
        vec!["<math>", "<annotation-xml encoding=text/html>"],
        vec!["<math>", "<annotation-xml>"],
        vec!["<p>"],
        vec!["<b>"],
        vec!["<a>"],
        vec!["<li>"],
        vec!["<form>"],
        vec!["<button>"],
        vec!["<h1>"],
        vec!["<ruby>"],
        vec!["<select>"],
        vec!["<select>", "<option>"],
        vec!["<select>", "<button>", "<selectedcontent>", "</selectedcontent>", "</button>", "<option selected>", "x", "<b>", "y"],
        vec!["<select>", "<button>", "<div>", "<selectedcontent>", "</selectedcontent>", "</div>", "<selectedcontent>", "</selectedcontent>", "</button>", "<option selected>", "x"],
        vec!["<select>", "<div>", "<span>", "<selectedcontent>", "</selectedcontent>", "</span>", "<selectedcontent>", "</selectedcontent>", "</div>", "<option selected>", "x", "<i>", "y"],
        vec!["<pre>"],
        vec!["<b>", "<p>"],
        vec!["<a>", "<table>"],
        vec!["<dl>", "<dd>"],
        vec!["<object>"],
    ]
}

pub fn fragment_contexts() -> Vec<Frag> {
    let f = |ns: &'static str, local: &'static str| Frag { ns, local, attrs: vec![], with_form: false, allows_scripting: true };
    let mut v = vec![];
    for l in [
        "div", "table", "tbody", "tr", "td", "caption", "colgroup", "template", "title", "textarea", "style", "script", "noscript",
        "plaintext", "html", "head", "body", "frameset", "select", "option", "button", "xmp", "iframe", "p", "form",
    ] {
        v.push(f(HTML_NS, l));
    }
    v.push(Frag { with_form: true, ..f(HTML_NS, "div") });
    v.push(Frag { allows_scripting: false, ..f(HTML_NS, "noscript") });
    for l in ["svg", "foreignObject", "title", "desc", "g"] {
        v.push(f(SVG_NS, l));
    }
    for l in ["math", "mi", "annotation-xml"] {
        v.push(f(MATHML_NS, l));
    }
    v.push(Frag { attrs: vec![("encoding", "text/html")], ..f(MATHML_NS, "annotation-xml") });
    v
}

pub fn themed() -> Vec<(&'static str, Vec<&'static str>)> {
    vec![
        ("formatting", vec!["<a>", "<b>", "<i>", "<nobr>", "<p>", "<div>", "</a>", "</b>", "</i>", "</p>", "</div>", "x", "<table>", "<td>", "<button>", "<span>"]),
        ("tables", vec!["<table>", "<tbody>", "<tr>", "<td>", "<caption>", "<colgroup>", "<col>", "</table>", "</tr>", "</td>", "x", " ", "<b>", "<input type=hidden>", "<form>", "<template>", "<!--c-->", "<select>", "&#13;"]),
        ("templates", vec!["<template>", "</template>", "<tr>", "<td>", "<col>", "<div>", "x", "<table>", "</table>", "<frameset>", "<body>", "<head>", "</body>", "</html>"]),
        ("foreign", vec!["<svg>", "<math>", "<foreignObject>", "<desc>", "<mi>", "<annotation-xml encoding=text/html>", "<annotation-xml>", "<p>", "<b>", "</p>", "</svg>", "</math>", "x", "\0", "<table>", "<font color=r>", "<mglyph>", "<![CDATA[x]]>", "</x>", "<svg/>", "</foreignObject>", "</mi>", "<x>"]),
        ("skeleton", vec!["<html>", "<head>", "<body>", "</head>", "</body>", "</html>", "<frameset>", "</frameset>", "<frame>", "<noframes>", "</noframes>", "x", " ", "<!--c-->", "<!DOCTYPE html>", "<title>", "<meta>", "<template>", "<br>", "<input type=hidden>", "<p>", "&#13;"]),
        ("lists", vec!["<ul>", "<li>", "<dd>", "<dt>", "</li>", "</ul>", "</dd>", "</dt>", "<ol>", "</ol>", "<p>", "<div>", "<address>", "<button>", "</p>", "x", "<h1>", "<h2>", "</h1>", "<option>", "<ruby>", "<rt>", "<rtc>", "<rb>"]),
        ("forms", vec!["<form>", "</form>", "<div>", "</div>", "<input>", "<button>", "<template>", "</template>", "<table>", "<tr>", "x", "<fieldset>", "<textarea>", "</textarea>"]),
        ("pre-lf", vec!["<pre>", "<listing>", "<textarea>", "\n", "x", "</>", "</pre>", "</textarea>", "<!--c-->", "\r\n", "<b>", "\0"]),
        ("select", vec!["<select>", "</select>", "<option>", "<option selected>", "</option>", "<optgroup>", "<selectedcontent>", "</selectedcontent>", "<button>", "</button>", "<hr>", "<input>", "x", "<b>", "<select multiple>", "<div>", "<table>", "<template>"]),
    ]
}

/// C18: builder-internal pointers x script detaches as BFS symbols ("@<role>")
pub fn pointer_job(tier: Tier) -> Job {
    Job {
        name: "J4/pointers+script-detach".into(),
        cfg: TreeCfg::default(),
        prefix: vec![],
        sigma: vec!["<form>", "</form>", "<div>", "</div>", "<template>", "</template>", "<input>", "<p>", "<b>", "</p>", "x", "</head>", "<title>", "<table>", "<a>", "@0", "@1", "@2", "@3", "@4"],
        depth: tier.pick(6, 8),
    }
}

/// C18: prepared structures in which the builder holds a node that is off the stack of open elements
/// (active formatting entries before a marker, form / head pointers), then script detaches + a few tokens
pub fn pointer_prep_jobs(tier: Tier) -> Vec<Job> {
    let sigma: Vec<&'static str> = vec![
        "</template>", "</td>", "</table>", "</caption>", "<div>", "x", "</b>", "</i>", "<input>", "<title>", "</form>", "<p>", "<b>", "<td>",
        "@0", "@1", "@2", "@3", "@4", "@5",
    ];
    let preps: Vec<Vec<&'static str>> = vec![
        vec!["<p>", "<b>", "</p>", "<template>"],
        vec!["<p>", "<b>", "</p>", "<table>", "<tr>", "<td>"],
        vec!["<p>", "<b>", "<i>", "</p>", "<table>", "<caption>"],
        vec!["<p>", "<b>", "</p>", "<applet>"],
        vec!["<table>", "<form>", "<template>"],
        vec!["<div>", "<form>", "</div>", "<template>"],
        vec!["<div>", "<form>", "</div>", "<table>", "<tr>", "<td>"],
        vec!["</head>", "<div>"],
        vec!["<b>", "<i>", "<p>", "<table>", "<td>"],
        vec!["<a>", "<table>", "<td>", "<a>"],
        vec!["<template>", "<p>", "<b>", "</p>", "<td>"],
    ];
    let depth = tier.pick(3, 4);
    preps.into_iter().map(|w| Job { name: format!("J9/{}", w.concat()), cfg: TreeCfg::default(), prefix: w, sigma: sigma.clone(), depth }).collect()
}

pub fn jobs(tier: Tier, full: bool) -> Vec<Job> {
    let sigma: Vec<&'static str> = if full { sigma_full() } else { sigma_full().into_iter().filter(|l| !is_c02_excluded(l)).collect() };
    let mut v = vec![];
    let d0 = tier.pick(3, 4);
    // R-tree does not model a sink that accepts declarative shadow roots (the template then never enters
    // the tree): that configuration is explored for the reference-free properties only
    let for_this = |c: &TreeCfg| full || !c.shadow_answer;
    for (n, c) in doc_cfgs(tier) {
        if for_this(&c) {
            v.push(Job { name: format!("J0/{n}"), cfg: c, prefix: vec![], sigma: sigma.clone(), depth: d0 });
        }
    }
    if tier == Tier::Quick {
        // the configurations the thorough tier explores to full depth, one level shallower
        for (n, c) in doc_cfgs(Tier::Thorough).into_iter().skip(2) {
            if for_this(&c) {
                v.push(Job { name: format!("J0/{n}"), cfg: c, prefix: vec![], sigma: sigma.clone(), depth: d0 - 1 });
            }
        }
    }
    for w in mode_witnesses() {
        if !full && w.iter().any(|l| is_c02_excluded(l)) {
            continue;
        }
        let depth = tier.pick(2, 3);
        v.push(Job { name: format!("J1/{}", w.concat()), cfg: TreeCfg::default(), prefix: w.clone(), sigma: sigma.clone(), depth });
        if w.concat().contains("noscript") || w.len() == 1 && tier == Tier::Thorough {
            v.push(Job { name: format!("J1n/{}", w.concat()), cfg: TreeCfg { scripting: false, ..Default::default() }, prefix: w, sigma: sigma.clone(), depth });
        }
    }
    for (n, s) in themed() {
        if !full && n == "select" {
            continue;
        }
        let depth = tier.pick(5, 7);
        let s: Vec<&'static str> = if full { s } else { s.into_iter().filter(|l| !is_c02_excluded(l)).collect() };
        v.push(Job { name: format!("J2/{n}"), cfg: TreeCfg::default(), prefix: vec![], sigma: s, depth });
    }
    // J5: every named element as start and end tag after every insertion-mode witness, followed by probes
    {
        let mut names: Vec<&'static str> = vec![];
        for n in ALL_NAMES {
            let st: &'static str = Box::leak(format!("<{n}>").into_boxed_str());
            let en: &'static str = Box::leak(format!("</{n}>").into_boxed_str());
            if full || !(is_c02_excluded(st) || is_c02_excluded(en)) {
                names.push(st);
                names.push(en);
            }
        }
        let mut sig5 = names.clone();
        for probe in ["x", "<p>", "<td>", "<li>", "</p>", "<b>", " "] {
            sig5.push(probe);
        }
        let mut ws = mode_witnesses();
        ws.push(vec![]);
        // an active formatting entry that is no longer on the stack: the next token that reconstructs the
        // active formatting elements re-creates it, every other token must not
        ws.push(vec!["<p>", "<b>", "</p>"]);
        ws.push(vec!["<p>", "<b>", "</p>", "<svg>"]);
        ws.push(vec!["<p>", "<b>", "</p>", "<table>"]);
        ws.push(vec!["<div>", "<a>", "<i>", "</div>", "<select>"]);
        // an HTML context element, then a foreign integration point: rules that walk the stack of open elements
        // (li / dd / dt loops, p-in-button-scope, table scopes) must stop at the MathML / SVG "special" elements
        ws.push(vec!["<li>", "<svg>", "<foreignObject>"]);
        ws.push(vec!["<dd>", "<math>", "<mtext>"]);
        ws.push(vec!["<dt>", "<math>", "<annotation-xml encoding=text/html>"]);
        ws.push(vec!["<p>", "<svg>", "<desc>"]);
        ws.push(vec!["<button>", "<math>", "<mi>"]);
        ws.push(vec!["<table>", "<td>", "<svg>", "<title>"]);
        ws.push(vec!["<a>", "<b>", "<svg>", "<foreignObject>"]);
        for w in ws {
            if !full && w.iter().any(|l| is_c02_excluded(l)) {
                continue;
            }
            v.push(Job { name: format!("J5/{}", w.concat()), cfg: TreeCfg::default(), prefix: w, sigma: sig5.clone(), depth: 2 });
        }
        v.push(Job { name: "J5n/".into(), cfg: TreeCfg { scripting: false, ..Default::default() }, prefix: vec![], sigma: sig5.clone(), depth: 2 });
        v.push(Job { name: "J5n/<p><b></p>".into(), cfg: TreeCfg { scripting: false, ..Default::default() }, prefix: vec!["<p>", "<b>", "</p>"], sigma: sig5.clone(), depth: 2 });
    }
    // J6: deep prepared structures (non-initial states that a depth-bounded search from the start
    // cannot reach): long formatting chains, outer/inner adoption-agency loop limits, Noah's ark
    // with attribute permutations, markers, foster-parented formatting
    {
        let sig6: Vec<&'static str> = vec![
            "<a>", "<b>", "<i>", "<p>", "<div>", "</a>", "</b>", "</i>", "</p>", "</div>", "x", "<table>", "<td>", "<b id=1>", "<b id=2>", "<b class=c id=1>", "</u>", "</em>", "<li>", "</table>", "<span>", "</span>",
        ];
        let preps: Vec<Vec<&'static str>> = vec![
            vec!["<b>", "<i>", "<u>", "<s>", "<em>"],
            vec!["<b>", "<i>", "<u>", "<s>", "<em>", "<div>"],
            vec!["<a>", "<b>", "<i>", "<u>", "<s>", "<em>", "<strong>", "<p>"],
            vec!["<a>", "<div>", "<div>", "<div>", "<div>", "<div>", "<div>", "<div>", "<div>", "<div>"],
            vec!["<b>", "<p>", "<p>", "<div>", "<div>", "<div>", "<div>", "<div>", "<div>", "<div>"],
            vec!["<div>", "<a>", "<b class=c id=1>", "<p>"],
            vec!["<a>", "<b id=1>", "<i>", "<div>"],
            vec!["<b>", "<i>", "<span>"],
            vec!["<a>", "<span>", "<b>", "<x>", "<i>"],
            vec!["<b>", "<b>", "<b>"],
            vec!["<b id=1>", "<b id=1>", "<b id=1>"],
            vec!["<b id=1 class=c>", "<b class=c id=1>", "<b id=1 class=c>"],
            vec!["<b id=1>", "<b id=2>", "<b id=1>", "<b id=1>"],
            vec!["<table>", "<b>", "<i>", "<u>"],
            vec!["<p>", "<b>", "<i>", "<u>", "</p>"],
            vec!["<b>", "<table>", "<td>", "<i>", "<u>"],
            vec!["<b>", "<button>", "<i>", "<p>"],
            vec!["<em>", "<object>", "<b>", "<div>", "<i>"],
            vec!["<ul>", "<li>", "<b>", "<ul>", "<li>", "<i>", "<p>"],
            vec!["<dl>", "<dd>", "<div>", "<dt>", "<b>", "<p>"],
            vec!["<table>", "<tr>", "<td>", "<table>", "<tr>", "<td>", "<b>"],
            vec!["<svg>", "<foreignObject>", "<b>", "<svg>", "<desc>", "<i>", "<p>"],
            vec!["<template>", "<table>", "<template>", "<tr>", "<td>", "<b>"],
            vec!["<h1>", "<b>", "<h2>", "<i>", "<p>", "<span>"],
        ];
        let depth = tier.pick(3, 4);
        for w in preps {
            v.push(Job { name: format!("J6/{}", w.concat()), cfg: TreeCfg::default(), prefix: w, sigma: sig6.clone(), depth });
        }
    }
    // J7: prepared customizable-select structures (selectedcontent mirroring below nested groups)
    if full {
        let sig7: Vec<&'static str> = themed().into_iter().find(|t| t.0 == "select").unwrap().1;
        let sc: Vec<&'static str> = vec!["<select>", "<button>", "<selectedcontent>", "</button>"];
        let tails: Vec<Vec<&'static str>> = vec![
            vec![],
            vec!["<optgroup>", "<div>", "<optgroup>"],
            vec!["<option selected>", "A", "</option>", "<optgroup>", "<div>", "<optgroup>"],
            vec!["<optgroup>", "<div>", "<div>"],
            vec!["<div>", "<optgroup>", "<div>"],
            vec!["<option>", "A", "<b>", "B", "</option>", "<option selected>"],
            vec!["<div>", "<selectedcontent>", "</div>", "<option selected>", "<i>"],
            vec!["<hr>", "<optgroup>", "<option selected>", "<i>", "x", "<b>"],
            // a template with contents below the selected option: the mirror holds a clone of it, and the
            // next selected option replaces (drops) that clone
            vec!["<option selected>", "<div>", "<template>", "x", "</template>", "</div>"],
            vec!["<option selected>", "<template>", "<b>", "x", "</template>", "y", "</option>", "<option selected>", "<div>", "<template>", "z", "</template>"],
        ];
        let depth = tier.pick(3, 4);
        for t in tails {
            let mut w = sc.clone();
            w.extend(t);
            v.push(Job { name: format!("J7/{}", w.concat()), cfg: TreeCfg::default(), prefix: w.clone(), sigma: sig7.clone(), depth });
        }
        let mut w: Vec<&'static str> = vec!["<select multiple>", "<button>", "<selectedcontent>", "</button>", "<optgroup>"];
        v.push(Job { name: format!("J7/{}", w.concat()), cfg: TreeCfg::default(), prefix: w.clone(), sigma: sig7.clone(), depth });
        w = vec!["<div>", "<selectedcontent>", "</div>", "<select>", "<optgroup>"];
        v.push(Job { name: format!("J7/{}", w.concat()), cfg: TreeCfg::default(), prefix: w, sigma: sig7.clone(), depth });
    }
    // J11: the end of the document: leftover active formatting elements / open elements, then </body>,
    // </html>, white space, comments, text, stray tags in the after-body family of modes
    {
        let sig11: Vec<&'static str> = vec!["</body>", "</html>", " ", "\n", "x", "<!--c-->", "<p>", "</p>", "<!DOCTYPE html>", "<html lang=en>", "<frameset>", "</b>", "<b>", "<body class=b>"];
        let depth = tier.pick(4, 5);
        for w in [vec!["<p>", "<b>", "x", "</p>"], vec!["<div>", "<a>", "x", "</div>"], vec!["<b>", "<table>"], vec!["<i>"], vec!["x"], vec![]] {
            v.push(Job { name: format!("J11/{}", w.concat()), cfg: TreeCfg::default(), prefix: w, sigma: sig11.clone(), depth });
        }
    }
    for f in fragment_contexts() {
        if !full && (f.local == "select" || f.local == "option") {
            continue;
        }
        let depth = tier.pick(2, 3);
        let cfg = TreeCfg { fragment: Some(f.clone()), ..Default::default() };
        v.push(Job { name: format!("J3/{}", cfg.describe()), cfg: cfg.clone(), prefix: vec![], sigma: sigma.clone(), depth });
        // J3s: the same under a sink that accepts declarative shadow roots (the shadow host of a template that is
        // the first thing in a fragment is the context element); reference-free properties only
        if full && f.attrs.is_empty() && ["div", "template", "html", "td", "svg", "select"].contains(&f.local) {
            let scfg = TreeCfg { fragment: Some(f.clone()), shadow_answer: true, ..Default::default() };
            v.push(Job { name: format!("J3s/{}", scfg.describe()), cfg: scfg, prefix: vec![], sigma: sigma.clone(), depth: 2 });
        }
        // J8: every fragment context x every insertion-mode witness as prepared prefix, one more symbol
        // (two in thorough over the structural sub-alphabet)
        for w in mode_witnesses() {
            if !full && w.iter().any(|l| is_c02_excluded(l)) {
                continue;
            }
            if tier == Tier::Thorough {
                let sub: Vec<&'static str> = sigma.iter().cloned().filter(|l| l.starts_with('<') && !l.contains(' ') || *l == "x" || *l == " ").collect();
                v.push(Job { name: format!("J8/{}/{}", cfg.describe(), w.concat()), cfg: cfg.clone(), prefix: w, sigma: sub, depth: 2 });
            } else {
                v.push(Job { name: format!("J8/{}/{}", cfg.describe(), w.concat()), cfg: cfg.clone(), prefix: w, sigma: sigma.clone(), depth: 1 });
            }
        }
    }
    v
}

pub fn main(ctx: &Ctx, prop: Prop) -> ! {
    let stats = Stats { execs: AtomicU64::new(0), outcomes: Mutex::new(BTreeSet::new()), sink_calls_checked: AtomicU64::new(0), collected: AtomicU64::new(0) };
    let mut js = jobs(ctx.tier, prop != Prop::C02);
    // quick: every job is bounded by its depth, which is a deterministic amount of work; the wall-clock budget is
    // only a safety net (about ten times what the jobs need on an idle 16-core machine) so that the evidence of a
    // quick run does not depend on how fast or how loaded the machine is. thorough: the deep jobs are cut by the
    // budget, and say so (capped_by: max_secs)
    let budget = if prop == Prop::C18 { ctx.tier.pick(480.0, 1200.0) } else { ctx.tier.pick(400.0, 900.0) };
    let mut env = Env::default();
    env.invariants = prop == Prop::C04;
    env.gc = prop == Prop::C18;
    for j in js.iter_mut() {
        j.cfg.with_rcdom = prop == Prop::C20 || prop == Prop::C06;
        if prop == Prop::C06 && j.cfg.fragment.is_some() {
            j.depth = 0;
        }
    }
    js.retain(|j| j.depth > 0);
    if prop == Prop::C06 {
        // frameset documents with leftover active formatting elements, continued in the frameset modes
        let sig: Vec<&'static str> = vec![" ", "x", "<!--c-->", "</html>", "</frameset>", "<noframes>", "</noframes>", "<i>", "<frame>", "\n", "<html>", "<!DOCTYPE html>"];
        for w in [vec!["<b>", "<frameset>", "</frameset>"], vec!["<b>", "<i>", "<frameset>", "</frameset>", "</html>"], vec!["<a>", "<frameset>"], vec!["<frameset>", "</frameset>", "</html>"]] {
            js.push(Job { name: format!("J10/{}", w.concat()), cfg: TreeCfg { with_rcdom: true, ..Default::default() }, prefix: w, sigma: sig.clone(), depth: ctx.tier.pick(3, 4) });
        }
    }
    if prop == Prop::C18 {
        js.push(pointer_job(ctx.tier));
        js.extend(pointer_prep_jobs(ctx.tier));
    }
    let (mut states, mut transitions, mut maxd) = (0u64, 0u64, 0usize);
    let mut closed_all = true;
    let mut jobrep = vec![];
    let mut samples = vec![];
    let weights: Vec<f64> = js.iter().map(|j| (j.sigma.len() as f64).powi(j.depth as i32).min(3e7)).collect();
    for (i, j) in js.iter().enumerate() {
        let left = budget - ctx.elapsed();
        let rest: f64 = weights[i..].iter().sum();
        let per = (left * weights[i] / rest).max(0.5);
        let out = explore(ctx, prop, j, &env, &stats, per);
        states += out.states;
        transitions += out.transitions;
        maxd = maxd.max(out.max_depth);
        // the depth bound is the stated bound of the job, not a cap
        let complete = out.closed || out.capped_by.as_deref().map(|c| c.starts_with("max_depth")).unwrap_or(false);
        closed_all &= complete;
        if samples.len() < 4 && !out.deepest.is_empty() {
            samples.push(json!(format!("{} :: {}{}", j.name, j.prefix.concat(), render(&j.sigma, &out.deepest))));
        }
        let dead: Vec<&str> = out.symbol_uses.iter().enumerate().filter(|(_, n)| **n == 0).map(|(i, _)| j.sigma[i]).collect();
        jobrep.push(json!({"job": j.name, "depth": j.depth, "alphabet": j.sigma.len(), "states": out.states, "transitions": out.transitions, "complete_to_depth": complete, "capped_by": out.capped_by, "never_enabled_symbols": dead}));
    }
    // C18: one-deviation schedules: a "script" detaches one attached element at one suspension point
    let mut detach_runs = 0u64;
    if prop == Prop::C18 {
        detach_runs = crate::c18::detach_sweep(ctx, &stats, ctx.tier);
        detach_runs += crate::c18::xml_sweep(ctx, &stats, ctx.tier);
    }
    if prop == Prop::C04 {
        crate::c04::extra(ctx, &stats);
    }
    // whole-table sweeps (doctype identifiers, foreign fix-up tables, every element name in context templates)
    let table_sweeps = if prop != Prop::C18 { crate::sweeps::run(ctx, prop, &stats) } else { json!(null) };
    let mut xml_runs = 0u64;
    if prop == Prop::C04 || prop == Prop::C05 {
        xml_runs = crate::c04::xml_jobs(ctx, prop, &stats);
    }
    if prop == Prop::C05 {
        xml_runs += crate::c16::contract_sweep(ctx);
    }
    let mut direct = (0u64, 0u64, true, 0usize);
    if prop == Prop::C20 {
        direct = crate::c20::direct(ctx);
        states += direct.0;
        transitions += direct.1;
        closed_all &= direct.2;
    }
    let (level, rule) = match prop {
        Prop::C02 => ("model_checking", "after end() of every execution the final DOM (kinds, order, names, namespaces, attributes with namespace/prefix/value, text, comments, doctype, template contents, duplicate-attribute flag) and the quirks mode reported to the sink must equal what R-tok + R-tree (reference transliteration of the WHATWG algorithms) compute for the same input and configuration"),
        Prop::C04 => ("fault_enumeration", "every execution of the tree-level jobs (all lexeme strings up to the job depth, chunk per lexeme): no panic, feed() leaves the queue empty unless suspended, end() returns, tree-builder state invariants at every suspension point; plus option vectors, scale grid and xml5ever jobs"),
        Prop::C05 => ("model_checking", "monitor on every TreeSink call of every execution: element-only ops get elements created by this sink, appended children are parentless, no insertion under self/descendant, reference sibling non-text with a parent, one doctype before any element, no duplicate qualified names in attribute lists"),
        Prop::C06 => ("model_checking", "skeleton predicate on the final DOM of every document-parse execution"),
        Prop::C18 => ("fault_enumeration", "simulated collector at every suspension point (chunk boundary after every lexeme, script pauses, encoding indicators): everything not connected to a traced handle is marked collected and any later sink call naming it is a violation; plus every single script-detach of an attached element at every suspension point"),
        Prop::C20 => ("model_checking", "every sink call is teed into RcDom; after every execution RcDom must equal the abstract DOM (kinds, names, attributes, text, order, template contents), every parent link must name the containing node, serialization must visit each node once in document order"),
    };
    ctx.assume("alphabet Sigma_tree: one lexeme per rule-equivalence class of tag names (full alphabet incl. select family); names outside these classes are assumed to behave like 'x'/'span'");
    ctx.assume("J0 from the empty document, J1 from 46 insertion-mode witnesses, J2 themed sub-alphabets (deeper), J3 35 fragment contexts; depth per job in coverage.jobs");
    ctx.finish(
        level,
        json!({
            "table_sweeps": table_sweeps,
            "states": states,
            "transitions": transitions,
            "traces_validated_against_impl": stats.execs.load(Ordering::Relaxed),
            "evaluations": stats.execs.load(Ordering::Relaxed),
            "distinct_nontrivial": states,
            "rule": rule,
            "exhaustive": closed_all,
            "max_depth": maxd,
            "jobs": jobrep,
            "nodes_collected_by_simulated_gc": stats.collected.load(Ordering::Relaxed),
            "detach_deviation_runs": detach_runs,
            "xml5ever_runs": xml_runs,
            "direct_sequences": {"states": direct.0, "transitions": direct.1, "complete_to_depth": direct.2, "depth": direct.3},
            "samples": samples,
        }),
    )
}

pub fn parse_tree_witness(w: &str) -> (TreeCfg, Vec<Feed>, Env) {
    let mut cfg = TreeCfg::default();
    let get = |k: &str| -> String {
        let i = w.find(k).unwrap_or_else(|| machinery(&format!("bad witness (no {k}): {w}"))) + k.len();
        w[i..].split(' ').next().unwrap().to_string()
    };
    cfg.scripting = get("scripting=") == "true";
    cfg.iframe_srcdoc = get("srcdoc=") == "true";
    cfg.quirks = get("quirks=").parse().unwrap();
    let ex = get("exact=");
    let (a, b) = ex.split_once('/').unwrap();
    cfg.tok_exact = a == "true";
    cfg.tb_exact = b == "true";
    cfg.discard_bom = get("bom=") == "true";
    cfg.drop_doctype = get("dropdt=") == "true";
    cfg.shadow_answer = get("shadow=") == "true";
    let fr = get("frag=");
    if fr != "-" {
        let desc_of = |f: &Frag| TreeCfg { fragment: Some(f.clone()), ..Default::default() }.describe();
        let want = format!("frag={fr} ");
        cfg.fragment = fragment_contexts().into_iter().find(|f| desc_of(f).contains(&want));
        if cfg.fragment.is_none() {
            machinery(&format!("unknown fragment context {fr}"));
        }
    }
    let i = w.find("chunks=[").unwrap();
    let j = w.rfind(']').unwrap();
    // reuse the tokenizer-level chunk parser
    let fake = format!("start=Data last=None cdata=false exact=false bom=true {}", &w[i..=w[..=j].rfind("]").unwrap()]);
    // find the end of the chunk list: first "]" that is followed by end or " gc"/" detach"/" inject"
    let mut end = fake.len();
    for pat in ["] gc", "] detach=", "] inject=", "] detach_role="] {
        if let Some(k) = fake.find(pat) {
            end = end.min(k + 1);
        }
    }
    let (_, sched) = crate::c01::parse_witness(&fake[..end]);
    let mut env = Env::default();
    env.gc = w.contains("] gc") || w.contains(" gc ") || w.ends_with(" gc");
    if let Some(k) = w.find(" detach_role=[") {
        let rest = &w[k + 14..];
        let nums: Vec<usize> = rest.split(|c: char| !c.is_ascii_digit()).filter(|s| !s.is_empty()).map(|s| s.parse().unwrap()).collect();
        for pair in nums.chunks(2) {
            if pair.len() == 2 {
                env.detach_role.push((pair[0], pair[1] as u8));
            }
        }
    }
    if let Some(k) = w.find(" detach=[(") {
        let rest = &w[k + 10..];
        let nums: Vec<usize> = rest.split(|c: char| !c.is_ascii_digit()).filter(|s| !s.is_empty()).take(2).map(|s| s.parse().unwrap()).collect();
        env.detach = vec![(nums[0], nums[1])];
    }
    (cfg, sched, env)
}

pub fn replay(ctx: &Ctx, prop: Prop, v: &serde_json::Value) {
    let w = v["witness"].as_str().unwrap_or("");
    if w.starts_with("direct: ") {
        crate::c20::replay_direct(ctx, w);
        return;
    }
    if w.starts_with("xml ") {
        // xml5ever jobs (C04 totality, C05 contract, C18 collector): re-run the one schedule
        use crate::xmlh::*;
        let (cfg, sched) = crate::c15::parse_witness(w.trim_end_matches(" script-pause"));
        let r = guarded(|| run_xml_tree(&cfg, &sched, true));
        match r {
            Err(p) => {
                ctx.violation("panic", w, json!({ "panic": p }));
            },
            Ok(o) => {
                println!("{}", o.sink.dom.borrow().render_doc());
                let c = o.sink.contract.borrow().first().cloned();
                if let Some(p) = o.problems.first() {
                    ctx.violation("totality", w, json!({ "message": p }));
                } else if let Some(c) = c {
                    ctx.violation(if cfg.gc { "untraced-node-used" } else { "contract" }, w, json!({ "message": c }));
                } else if cfg.gc {
                    let b = run_xml_tree(&XmlCfg { gc: false, ..cfg.clone() }, &sched, true);
                    if crate::c15::tree_sig(&o) != crate::c15::tree_sig(&b) {
                        ctx.violation("gc-changes-tree", w, json!({}));
                    }
                }
            },
        }
        println!("replay: {}", if ctx.violations() == 0 { "passes" } else { "FAILS" });
        return;
    }
    let (mut cfg, sched, mut env) = parse_tree_witness(w);
    if prop == Prop::C02 {
        let input: String = sched.iter().map(|f| if let Feed::Chunk(s) = f { s.as_str() } else { "" }).collect();
        let r = guarded(|| run_tree(&cfg, &sched, &env, true));
        if let Ok(o) = &r {
            match crate::c02::compare(&cfg, &input, o) {
                None => println!("replay: passes"),
                Some((k, m)) => {
                    println!("{m}");
                    ctx.violation(&k, w, json!({ "message": m }));
                    println!("replay: FAILS");
                },
            }
        }
        return;
    }
    cfg.with_rcdom = prop == Prop::C20;
    env.invariants = prop == Prop::C04;
    let r = guarded(|| run_tree(&cfg, &sched, &env, true));
    if let Ok(o) = &r {
        println!("{}", o.sink.as_ref().unwrap().dom.borrow().render_doc());
    }
    match judge(prop, &cfg, &r) {
        None => println!("replay: passes"),
        Some((k, m)) => {
            ctx.violation(&k, w, json!({ "message": m }));
            println!("replay: FAILS");
        },
    }
}
