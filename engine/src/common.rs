//! Shared plumbing: tiers, evidence, violations, known findings, digests.
use serde_json::{json, Value};
use std::collections::BTreeSet;
use std::hash::{Hash, Hasher};
use std::sync::atomic::{AtomicU64, Ordering};
use std::sync::Mutex;
use std::time::Instant;

pub const VERIF: &str = "/verif";

#[derive(Clone, Copy, PartialEq, Eq, Debug)]
pub enum Tier {
    Quick,
    Thorough,
}
impl Tier {
    pub fn name(self) -> &'static str {
        match self {
            Tier::Quick => "quick",
            Tier::Thorough => "thorough",
        }
    }
    pub fn pick<T>(self, q: T, t: T) -> T {
        match self {
            Tier::Quick => q,
            Tier::Thorough => t,
        }
    }
}

/// 128-bit digest from two differently keyed SipHash runs (std's DefaultHasher
/// is deterministic when built with `new()`).
pub fn digest<T: Hash + ?Sized>(t: &T) -> u128 {
    let mut a = std::collections::hash_map::DefaultHasher::new();
    t.hash(&mut a);
    let mut b = std::collections::hash_map::DefaultHasher::new();
    0x9e3779b97f4a7c15u64.hash(&mut b);
    t.hash(&mut b);
    ((a.finish() as u128) << 64) | b.finish() as u128
}

pub struct Known {
    pub status: String,
    pub property: String,
    pub kind: String,
    pub witness: String,
}

pub struct Ctx {
    pub prop: String,
    pub tier: Tier,
    pub seed: i64,
    pub start: Instant,
    pub known: Vec<Known>,
    pub nviol: AtomicU64,
    reported: Mutex<BTreeSet<String>>,
    known_hit: Mutex<BTreeSet<String>>,
    pub assumptions: Mutex<Vec<String>>,
    pub replay_mode: bool,
}

impl Ctx {
    pub fn new(prop: &str, tier: Tier) -> Ctx {
        let _ = CURRENT_PROP.set(prop.to_string());
        start_watchdog(prop, tier.pick(20, 60));
        let seed = std::env::var("VERIF_SEED")
            .ok()
            .and_then(|s| s.parse().ok())
            .unwrap_or(0);
        let mut known = vec![];
        if let Ok(s) = std::fs::read_to_string(format!("{VERIF}/known_findings.jsonl")) {
            for l in s.lines() {
                let l = l.trim();
                if l.is_empty() || l.starts_with('#') {
                    continue;
                }
                if let Ok(v) = serde_json::from_str::<Value>(l) {
                    known.push(Known {
                        status: v["status"].as_str().unwrap_or("").to_string(),
                        property: v["property"].as_str().unwrap_or("").to_string(),
                        kind: v["kind"].as_str().unwrap_or("").to_string(),
                        witness: v["witness"].as_str().unwrap_or("").to_string(),
                    });
                } else {
                    eprintln!("MACHINERY: bad line in known_findings.jsonl: {l}");
                    std::process::exit(2);
                }
            }
        }
        Ctx {
            prop: prop.to_string(),
            tier,
            seed,
            start: Instant::now(),
            known,
            nviol: AtomicU64::new(0),
            reported: Mutex::new(BTreeSet::new()),
            known_hit: Mutex::new(BTreeSet::new()),
            assumptions: Mutex::new(vec![]),
            replay_mode: false,
        }
    }

    pub fn assume(&self, s: &str) {
        self.assumptions.lock().unwrap().push(s.to_string());
    }

    pub fn elapsed(&self) -> f64 {
        self.start.elapsed().as_secs_f64()
    }

    pub fn violations(&self) -> u64 {
        self.nviol.load(Ordering::SeqCst)
    }

    /// Report a failing case. `kind` names the oracle clause that failed,
    /// `witness` is the canonical rendering of the failing case (input,
    /// schedule, op list) and `detail` whatever helps a reader (both sides).
    /// Returns true when the case is a listed known finding.
    pub fn violation(&self, kind: &str, witness: &str, detail: Value) -> bool {
        self.violation_for(&self.prop.clone(), kind, witness, detail)
    }

    pub fn violation_for(&self, prop: &str, kind: &str, witness: &str, detail: Value) -> bool {
        for k in &self.known {
            // a finding is identified by its exact witness, or - witness "*" - by a kind that names the one
            // call site / mechanism it comes from (the kind is then computed from the failing state, not the input)
            if k.status == "known" && k.property == prop && k.kind == kind && (k.witness == witness || k.witness == "*")
            {
                let key = format!("{prop}|{kind}|{}", k.witness);
                if self.known_hit.lock().unwrap().insert(key) {
                    println!("KNOWN-FINDING: property={prop} kind={kind} witness={witness:?}");
                }
                return true;
            }
        }
        self.nviol.fetch_add(1, Ordering::SeqCst);
        let key = format!("{prop}|{kind}|{witness}");
        let mut rep = self.reported.lock().unwrap();
        let cap = std::env::var("VERIF_MAX_REPORT").ok().and_then(|v| v.parse().ok()).unwrap_or(8usize);
        if rep.len() >= cap || !rep.insert(key.clone()) {
            return false;
        }
        drop(rep);
        let d = digest(&key);
        let dir = format!("{VERIF}/replays/{prop}");
        let _ = std::fs::create_dir_all(&dir);
        let path = format!("{dir}/{:016x}.json", (d >> 64) as u64);
        let body = json!({
            "property": prop,
            "check": self.prop,
            "kind": kind,
            "witness": witness,
            "tier": self.tier.name(),
            "detail": detail,
        });
        let _ = std::fs::write(&path, serde_json::to_string_pretty(&body).unwrap());
        println!("VIOLATION property={prop} replay={path}");
        println!("  kind={kind} witness={witness:?}");
        false
    }

    /// Write evidence and exit with the verdict.
    pub fn finish(&self, level: &str, mut coverage: Value) -> ! {
        let nv = self.violations();
        if let Some(o) = coverage.as_object_mut() {
            o.entry("exhaustive").or_insert(json!(false));
        }
        let ev = json!({
            "property_id": self.prop,
            "tier": self.tier.name(),
            "seed": self.seed,
            "level": level,
            "coverage": coverage,
            "assumptions": *self.assumptions.lock().unwrap(),
            "wall_s": (self.elapsed() * 1000.0).round() / 1000.0,
            "violations": nv,
        });
        if !self.replay_mode {
            let _ = std::fs::create_dir_all(format!("{VERIF}/evidence"));
            let path = format!("{VERIF}/evidence/{}.json", self.prop);
            if let Err(e) = std::fs::write(&path, serde_json::to_string_pretty(&ev).unwrap()) {
                eprintln!("MACHINERY: cannot write {path}: {e}");
                std::process::exit(2);
            }
        }
        println!(
            "{} {} done in {:.1}s violations={} coverage={}",
            self.prop,
            self.tier.name(),
            self.elapsed(),
            nv,
            short(&coverage)
        );
        std::process::exit(if nv > 0 { 1 } else { 0 });
    }
}

fn short(v: &Value) -> String {
    let mut o = v.clone();
    if let Some(m) = o.as_object_mut() {
        m.remove("samples");
        m.remove("rule");
    }
    o.to_string()
}

/// machinery failure: never a verdict
pub fn machinery(msg: &str) -> ! {
    eprintln!("MACHINERY: {msg}");
    std::process::exit(2);
}

// ---------------------------------------------------------------------------------------------------
// Hang watchdog. Every evaluation of the subject (one parse of one input under one schedule) registers
// its witness in a per-thread slot; a watchdog thread reports an evaluation that has not returned within
// the limit as a violation of the property being checked (the subject does not terminate on an explored
// input: no result exists that could satisfy the property) and ends the process - the spinning thread
// cannot be interrupted. The limit is orders of magnitude above what any evaluation needs (milliseconds).
pub struct WatchSlot {
    started_ms: AtomicU64,
    witness: Mutex<String>,
}
static WATCH_SLOTS: Mutex<Vec<std::sync::Arc<WatchSlot>>> = Mutex::new(Vec::new());
static WATCH_T0: std::sync::OnceLock<Instant> = std::sync::OnceLock::new();
thread_local! {
    static MY_SLOT: std::sync::Arc<WatchSlot> = {
        let s = std::sync::Arc::new(WatchSlot { started_ms: AtomicU64::new(0), witness: Mutex::new(String::new()) });
        WATCH_SLOTS.lock().unwrap().push(s.clone());
        s
    };
}
pub struct WatchGuard {
    prev: u64,
}
/// mark the start of one evaluation of the subject; `describe` writes the replayable witness
pub fn watch(describe: impl FnOnce(&mut String)) -> WatchGuard {
    let now = WATCH_T0.get_or_init(Instant::now).elapsed().as_millis() as u64 + 1;
    MY_SLOT.with(|s| {
        let prev = s.started_ms.load(Ordering::Relaxed);
        if prev == 0 {
            let mut w = s.witness.lock().unwrap();
            w.clear();
            describe(&mut w);
            drop(w);
            s.started_ms.store(now, Ordering::Release);
        }
        WatchGuard { prev }
    })
}
impl Drop for WatchGuard {
    fn drop(&mut self) {
        if self.prev == 0 {
            MY_SLOT.with(|s| s.started_ms.store(0, Ordering::Release));
        }
    }
}
pub fn start_watchdog(prop: &str, limit_secs: u64) {
    let prop = prop.to_string();
    WATCH_T0.get_or_init(Instant::now);
    std::thread::spawn(move || loop {
        std::thread::sleep(std::time::Duration::from_millis(500));
        let now = WATCH_T0.get().unwrap().elapsed().as_millis() as u64 + 1;
        let slots: Vec<std::sync::Arc<WatchSlot>> = WATCH_SLOTS.lock().unwrap().clone();
        for s in slots {
            let st = s.started_ms.load(Ordering::Acquire);
            if st != 0 && now.saturating_sub(st) > limit_secs * 1000 {
                let w = s.witness.lock().map(|w| w.clone()).unwrap_or_default();
                if s.started_ms.load(Ordering::Acquire) != st {
                    continue;
                }
                let dir = format!("{VERIF}/replays/{prop}");
                let _ = std::fs::create_dir_all(&dir);
                let path = format!("{dir}/{:016x}.json", (digest(&("hang", &w)) >> 64) as u64);
                let body = json!({
                    "property": prop, "check": prop, "kind": "hang", "witness": w,
                    "detail": {"message": format!("the evaluation did not return within {limit_secs} s (the unchanged code needs milliseconds)")},
                });
                let _ = std::fs::write(&path, serde_json::to_string_pretty(&body).unwrap());
                println!("VIOLATION property={prop} replay={path}");
                println!("  kind=hang witness={w:?}");
                use std::io::Write;
                let _ = std::io::stdout().flush();
                std::process::exit(1);
            }
        }
    });
}

/// Run `f` under catch_unwind with the panic message captured.
thread_local! { static GUARD_DEPTH: std::cell::Cell<u32> = const { std::cell::Cell::new(0) }; }
pub fn guarded<R>(f: impl FnOnce() -> R) -> Result<R, String> {
    GUARD_DEPTH.with(|d| d.set(d.get() + 1));
    let r = std::panic::catch_unwind(std::panic::AssertUnwindSafe(f));
    GUARD_DEPTH.with(|d| d.set(d.get() - 1));
    match r {
        Ok(r) => Ok(r),
        Err(e) => Err(if let Some(s) = e.downcast_ref::<String>() {
            s.clone()
        } else if let Some(s) = e.downcast_ref::<&str>() {
            s.to_string()
        } else {
            "panic".to_string()
        }),
    }
}

/// Silence the default panic hook (panics are expected outcomes of probes).
pub static CURRENT_PROP: std::sync::OnceLock<String> = std::sync::OnceLock::new();

pub fn quiet_panics() {
    std::panic::set_hook(Box::new(|info| {
        if GUARD_DEPTH.with(|d| d.get()) == 0 {
            // A panic raised inside the subject's own sources while the harness was not guarding the
            // call is still the subject panicking on an explored input: a verdict, not a machinery failure.
            let in_subject = info.location().map(|l| l.file().starts_with("/repo/")).unwrap_or(false);
            if let (true, Some(prop)) = (in_subject, CURRENT_PROP.get()) {
                let dir = format!("{VERIF}/replays/{prop}");
                let _ = std::fs::create_dir_all(&dir);
                let path = format!("{dir}/unguarded-subject-panic.json");
                let body = json!({"property": prop, "check": prop, "kind": "panic", "witness": "(the input is named in the check's progress output; re-run the check)", "detail": {"message": format!("{info}")}});
                let _ = std::fs::write(&path, serde_json::to_string_pretty(&body).unwrap_or_default());
                println!("VIOLATION property={prop} replay={path}");
                println!("  kind=panic (subject code panicked outside a guarded call): {info}");
                std::process::exit(1);
            }
            eprintln!("MACHINERY: harness panic: {info}");
        }
    }));
}

/// A concurrent set of 128-bit digests, sharded.
pub struct DigestSet {
    shards: Vec<Mutex<std::collections::HashSet<u128>>>,
}
impl DigestSet {
    pub fn new() -> Self {
        DigestSet {
            shards: (0..256).map(|_| Mutex::new(Default::default())).collect(),
        }
    }
    pub fn insert(&self, d: u128) -> bool {
        self.shards[(d as usize) & 255].lock().unwrap().insert(d)
    }
    pub fn contains(&self, d: u128) -> bool {
        self.shards[(d as usize) & 255].lock().unwrap().contains(&d)
    }
    pub fn len(&self) -> usize {
        self.shards.iter().map(|s| s.lock().unwrap().len()).sum()
    }
}

/// Collects up to `cap` sample strings (first ones + the last offered).
pub struct Samples {
    v: Mutex<Vec<Value>>,
    cap: usize,
}
impl Samples {
    pub fn new(cap: usize) -> Self {
        Samples {
            v: Mutex::new(vec![]),
            cap,
        }
    }
    pub fn offer(&self, f: impl FnOnce() -> Value) {
        let mut v = self.v.lock().unwrap();
        if v.len() < self.cap {
            v.push(f());
        }
    }
    pub fn force(&self, x: Value) {
        self.v.lock().unwrap().push(x);
    }
    pub fn take(&self) -> Vec<Value> {
        self.v.lock().unwrap().clone()
    }
}
