//! Tree-level harness: drives the real tokenizer + tree builder into the
//! monitored model sink (optionally teeing into RcDom) under a feed schedule.
use crate::dom::*;
use crate::tokh::Feed;
use html5ever::driver::{parse_document, parse_fragment_for_element, ParseOpts, Parser};
use html5ever::tendril::StrTendril;
use html5ever::tokenizer::TokenizerOpts;
use html5ever::tree_builder::{create_element, QuirksMode, Tracer, TreeBuilderOpts, TreeSink};
use html5ever::{Attribute, LocalName, Namespace, QualName};
use markup5ever::TokenizerResult;
use std::cell::RefCell;

#[derive(Clone, Debug, PartialEq, Eq, Hash)]
pub struct Frag {
    pub ns: &'static str,
    pub local: &'static str,
    pub attrs: Vec<(&'static str, &'static str)>,
    pub with_form: bool,
    pub allows_scripting: bool,
}

#[derive(Clone, Debug, PartialEq, Eq, Hash)]
pub struct TreeCfg {
    pub scripting: bool,
    pub iframe_srcdoc: bool,
    pub quirks: u8, // 0 NoQuirks 1 LimitedQuirks 2 Quirks
    pub tok_exact: bool,
    pub tb_exact: bool,
    pub discard_bom: bool,
    pub drop_doctype: bool,
    pub profile: bool,
    pub fragment: Option<Frag>,
    pub shadow_answer: bool,
    pub with_rcdom: bool,
}
impl Default for TreeCfg {
    fn default() -> Self {
        TreeCfg {
            scripting: true,
            iframe_srcdoc: false,
            quirks: 0,
            tok_exact: false,
            tb_exact: false,
            discard_bom: true,
            drop_doctype: false,
            profile: false,
            fragment: None,
            shadow_answer: false,
            with_rcdom: false,
        }
    }
}
impl TreeCfg {
    pub fn describe(&self) -> String {
        format!(
            "scripting={} srcdoc={} quirks={} exact={}/{} bom={} dropdt={} frag={} shadow={}",
            self.scripting,
            self.iframe_srcdoc,
            self.quirks,
            self.tok_exact,
            self.tb_exact,
            self.discard_bom,
            self.drop_doctype,
            match &self.fragment {
                None => "-".to_string(),
                Some(f) => format!("{}:{}{:?}{}", if f.ns == HTML_NS { "html" } else if f.ns == SVG_NS { "svg" } else { "math" }, f.local, f.attrs, if f.with_form { "+form" } else { "" }),
            },
            self.shadow_answer
        )
    }
}

pub fn quirks_of(i: u8) -> QuirksMode {
    match i {
        0 => QuirksMode::NoQuirks,
        1 => QuirksMode::LimitedQuirks,
        _ => QuirksMode::Quirks,
    }
}

pub struct CollectTracer {
    pub seen: RefCell<Vec<usize>>,
}
impl Tracer for CollectTracer {
    type Handle = usize;
    fn trace_handle(&self, node: &usize) {
        self.seen.borrow_mut().push(*node);
    }
}

/// What the environment does at suspension points.
#[derive(Clone, Debug, Default)]
pub struct Env {
    /// run the simulated collector at every suspension point (C18)
    pub gc: bool,
    /// (suspension index, k): a script detaches the k-th attached element (document order)
    pub detach: Vec<(usize, usize)>,
    /// (script pause index, text) pushed to the front of the input
    pub inject: Vec<(usize, String)>,
    /// evaluate tree-builder state invariants at every suspension (C04)
    pub invariants: bool,
    /// (suspension index, role): a script detaches the node the tree builder holds in that role
    /// (0 form pointer, 1 head pointer, 2 last active formatting element, 3 current node,
    /// 4 second node from the top of the stack, 5 first active formatting element)
    pub detach_role: Vec<(usize, u8)>,
}

#[derive(Default)]
pub struct TreeOut {
    pub results: Vec<&'static str>,
    pub indicators: Vec<String>,
    /// for each EncodingIndicator: was the newest meta attached when feed returned
    pub indicator_meta_attached: Vec<bool>,
    pub problems: Vec<String>,
    pub suspensions: usize,
    /// number of attached elements at each suspension (domain of the detach choice)
    pub attached_at: Vec<usize>,
    pub collected: usize,
    /// for every entry of env.detach_role: was a node actually detached
    pub role_detached: Vec<bool>,
    pub sink: Option<MSink>,
    /// control state before end(): mode, template modes, stack / active-formatting names, flags
    pub ctl_summary: String,
    pub tb_key: String,
    pub tok_key: String,
    pub pre_end_dom: String,
}

fn attached_elements(d: &Dom) -> Vec<usize> {
    // elements reachable from the document, pre-order, including template contents
    let mut out = vec![];
    let mut stack = vec![0usize];
    while let Some(n) = stack.pop() {
        if d.is_element(n) {
            out.push(n);
        }
        if let Kind::Element { template: Some(t), .. } = &d.nodes[n].kind {
            stack.push(*t);
        }
        for &c in d.nodes[n].children.iter().rev() {
            stack.push(c);
        }
    }
    out
}

fn tb_invariants(p: &Parser<MSink>) -> Option<String> {
    let d = p.tokenizer.sink.verif_dump();
    let text_mode = d.mode == "Text" || d.mode == "InTableText";
    if text_mode != d.orig_mode.is_some() {
        return Some(format!("orig_mode={:?} in mode {}", d.orig_mode, d.mode));
    }
    if !d.pending_table_text.is_empty() && d.mode != "InTableText" {
        return Some(format!("pending_table_text non-empty in mode {}", d.mode));
    }
    let sink = &p.tokenizer.sink.sink;
    let dom = sink.dom.borrow();
    let open_templates = d.open_elems.iter().filter(|&&h| dom.is_html(h, "template")).count();
    let ctx_template = d.context_elem.map(|c| dom.is_html(c, "template")).unwrap_or(false) as usize;
    if d.template_modes.len() != open_templates + ctx_template {
        return Some(format!(
            "template_modes has {} entries, {} template elements are open (+{} context)",
            d.template_modes.len(),
            open_templates,
            ctx_template
        ));
    }
    if let Some(&first) = d.open_elems.first() {
        if !dom.is_html(first, "html") {
            return Some("open_elems[0] is not the html element".into());
        }
    } else if !matches!(d.mode.as_str(), "Initial" | "BeforeHtml" | "AfterAfterBody" | "AfterAfterFrameset" | "AfterBody" | "AfterFrameset") {
        return Some(format!("open_elems empty in mode {}", d.mode));
    }
    for h in d.open_elems.iter().chain(d.active_formatting.iter().flatten().map(|x| &x.0)) {
        if !dom.is_element(*h) {
            return Some(format!("non-element #{h} on the stack / formatting list"));
        }
    }
    None
}

/// canonical digest-able rendering of the tree-builder state in terms of the model DOM
pub fn tb_key(p: &Parser<MSink>) -> String {
    let d = p.tokenizer.sink.verif_dump();
    format!(
        "{}|{:?}|{:?}|{:?}|{}|{:?}|{:?}|{:?}|{:?}|{}{}{}|{:?}",
        d.mode,
        d.orig_mode,
        d.template_modes,
        d.pending_table_text,
        d.quirks_mode,
        d.open_elems,
        d.active_formatting,
        d.head_elem,
        d.form_elem,
        d.frameset_ok as u8,
        d.ignore_lf as u8,
        d.foster_parenting as u8,
        d.context_elem
    )
}

pub fn make_parser(cfg: &TreeCfg) -> Parser<MSink> {
    let sink = MSink::new(cfg.with_rcdom, cfg.shadow_answer);
    let opts = ParseOpts {
        tokenizer: TokenizerOpts {
            exact_errors: cfg.tok_exact,
            discard_bom: cfg.discard_bom,
            profile: cfg.profile,
            initial_state: None,
            last_start_tag_name: None,
        },
        tree_builder: TreeBuilderOpts {
            exact_errors: cfg.tb_exact,
            scripting_enabled: cfg.scripting,
            iframe_srcdoc: cfg.iframe_srcdoc,
            drop_doctype: cfg.drop_doctype,
            quirks_mode: quirks_of(cfg.quirks),
        },
    };
    match &cfg.fragment {
        None => parse_document(sink, opts),
        Some(f) => {
            let attrs: Vec<Attribute> = f
                .attrs
                .iter()
                .map(|(k, v)| Attribute {
                    name: QualName::new(None, Namespace::from(""), LocalName::from(*k)),
                    value: StrTendril::from_slice(v),
                })
                .collect();
            let ctx = create_element(&sink, QualName::new(None, Namespace::from(f.ns), LocalName::from(f.local)), attrs);
            let form = if f.with_form {
                Some(create_element(&sink, QualName::new(None, Namespace::from(HTML_NS), LocalName::from("form")), vec![]))
            } else {
                None
            };
            parse_fragment_for_element(sink, opts, ctx, f.allows_scripting, form)
        },
    }
}

fn line_probe_fn(addr: usize) -> u64 {
    // the parser lives in run_tree's frame for the whole time the probe is installed
    let t = unsafe { &*(addr as *const html5ever::tokenizer::Tokenizer<html5ever::tree_builder::TreeBuilder<usize, MSink>>) };
    t.verif_current_line()
}

pub fn run_tree(cfg: &TreeCfg, sched: &[Feed], env: &Env, end: bool) -> TreeOut {
    let _watch = crate::common::watch(|w| w.push_str(&crate::e2::witness(cfg, sched, env)));
    let p = make_parser(cfg);
    p.tokenizer.sink.sink.line_probe.set(Some((&p.tokenizer as *const _ as usize, line_probe_fn)));
    let mut out = TreeOut::default();
    let mut pauses = 0usize;
    let mut susp = 0usize;
    let mut at_suspension = |p: &Parser<MSink>, out: &mut TreeOut| {
        let sink = &p.tokenizer.sink.sink;
        if env.invariants {
            if let Some(m) = tb_invariants(p) {
                out.problems.push(format!("tree-builder invariant: {m}"));
            }
        }
        let attached = attached_elements(&sink.dom.borrow());
        out.attached_at.push(attached.len());
        for (at, k) in &env.detach {
            if *at == susp {
                if let Some(&n) = attached.get(*k) {
                    sink.script_detach(n);
                }
            }
        }
        for (at, role) in &env.detach_role {
            if *at == susp {
                let d = p.tokenizer.sink.verif_dump();
                let target: Option<usize> = match role {
                    0 => d.form_elem,
                    1 => d.head_elem,
                    2 => d.active_formatting.iter().rev().flatten().next().map(|x| x.0),
                    3 => d.open_elems.last().copied(),
                    4 => d.open_elems.iter().rev().nth(1).copied(),
                    _ => d.active_formatting.iter().flatten().next().map(|x| x.0),
                };
                let mut done = false;
                if let Some(n) = target {
                    if sink.dom.borrow().nodes[n].parent.is_some() && !sink.dom.borrow().is_html(n, "html") {
                        sink.script_detach(n);
                        done = true;
                    }
                }
                out.role_detached.push(done);
            }
        }
        if env.gc {
            let t = CollectTracer { seen: RefCell::new(vec![]) };
            p.tokenizer.sink.trace_handles(&t);
            let roots = t.seen.into_inner();
            out.collected += sink.collect_except(&roots);
        }
        susp += 1;
    };
    for f in sched {
        match f {
            Feed::Chunk(s) => p.input_buffer.push_back(StrTendril::from_slice(s)),
            Feed::Empty => p.input_buffer.push_back(StrTendril::new()),
        }
        let mut guard = 0;
        loop {
            guard += 1;
            if guard > 100_000 {
                out.problems.push("feed loop does not terminate".into());
                break;
            }
            match p.tokenizer.feed(&p.input_buffer) {
                TokenizerResult::Done => {
                    out.results.push("Done");
                    if !p.input_buffer.is_empty() {
                        out.problems.push("feed returned Done with a non-empty queue".into());
                    }
                    at_suspension(&p, &mut out);
                    break;
                },
                TokenizerResult::Script(_h) => {
                    out.results.push("Script");
                    for (k, text) in &env.inject {
                        if *k == pauses {
                            p.input_buffer.push_front(StrTendril::from_slice(text));
                        }
                    }
                    pauses += 1;
                    at_suspension(&p, &mut out);
                    if p.input_buffer.is_empty() {
                        break;
                    }
                },
                TokenizerResult::EncodingIndicator(label) => {
                    out.results.push("EncodingIndicator");
                    out.indicators.push(label.to_string());
                    let sink = &p.tokenizer.sink.sink;
                    let last = sink.metas.borrow().last().cloned();
                    let attached = match last {
                        Some(m) => sink.dom.borrow().is_inclusive_ancestor(0, m),
                        None => false,
                    };
                    out.indicator_meta_attached.push(attached);
                    at_suspension(&p, &mut out);
                    if p.input_buffer.is_empty() {
                        break;
                    }
                },
            }
        }
    }
    out.suspensions = susp;
    out.tb_key = tb_key(&p);
    out.ctl_summary = {
        let d = p.tokenizer.sink.verif_dump();
        let dom = p.tokenizer.sink.sink.dom.borrow();
        let name = |n: &usize| -> String {
            match dom.elem(*n) {
                Some((ns, l)) => format!("{}:{l}", if ns == HTML_NS { "h" } else if ns == SVG_NS { "s" } else if ns == MATHML_NS { "m" } else { "?" }),
                None => "#".into(),
            }
        };
        let stack: Vec<String> = d.open_elems.iter().map(name).collect();
        let afe: Vec<String> = d
            .active_formatting
            .iter()
            .zip(d.active_formatting_attrs.iter())
            .map(|(e, a)| match (e, a) {
                (Some((h, _)), Some(attrs)) => format!("{}{:?}", name(h), attrs),
                _ => "|".into(),
            })
            .collect();
        let pending: String = d.pending_table_text.iter().map(|(_, t)| t.as_str()).collect();
        format!(
            "mode={} orig={:?} tmpl={:?} stack={:?} afe={:?} fok={} head={} form={} pending={:?} skiplf={}",
            d.mode, d.orig_mode, d.template_modes, stack, afe, d.frameset_ok, d.head_elem.is_some(), d.form_elem.is_some(), pending, d.ignore_lf
        )
    };
    {
        let d = p.tokenizer.verif_dump();
        // current_line is not part of the state key (unbounded counter, checked by the line oracle)
        out.tok_key = format!("{:?}", VerifTokNoLine(&d));
        let sink = &p.tokenizer.sink.sink;
        let dom = sink.dom.borrow();
        let mut s = dom.render_doc();
        // detached subtrees that the tree builder still references matter too
        for (i, n) in dom.nodes.iter().enumerate() {
            if i != 0 && n.parent.is_none() && n.host.is_none() && !n.collected && !matches!(n.kind, Kind::Text(_)) {
                s.push_str(&format!("~detached #{i}\n"));
                dom.render(i, &mut s, 1);
            }
        }
        out.pre_end_dom = s;
    }
    if end {
        p.tokenizer.end();
    }
    p.tokenizer.sink.sink.line_probe.set(None);
    let sink = p.tokenizer.sink.sink;
    out.sink = Some(sink);
    out
}

/// C06: canonical html/head/body skeleton of a complete document parse
pub fn skeleton_check(d: &Dom) -> Option<String> {
    let doc = &d.nodes[0];
    let mut seen_doctype = 0;
    let mut html = None;
    for (i, &c) in doc.children.iter().enumerate() {
        match &d.nodes[c].kind {
            Kind::Doctype { .. } => {
                seen_doctype += 1;
                if seen_doctype > 1 {
                    return Some("more than one doctype".into());
                }
                if doc.children[..i].iter().any(|&p| !matches!(d.nodes[p].kind, Kind::Comment(_))) {
                    return Some("doctype preceded by something other than comments".into());
                }
            },
            Kind::Comment(_) => {},
            Kind::Element { .. } => {
                if html.is_some() {
                    return Some("document has more than one element child".into());
                }
                if !d.is_html(c, "html") {
                    return Some(format!("document element is {:?}", d.elem(c)));
                }
                html = Some(c);
            },
            Kind::Text(_) => return Some("text node is a child of the document".into()),
            k => return Some(format!("unexpected child of the document: {k:?}")),
        }
    }
    let Some(html) = html else { return Some("document has no html element".into()) };
    let elems: Vec<usize> = d.nodes[html].children.iter().cloned().filter(|&c| d.is_element(c)).collect();
    let names: Vec<&str> = elems.iter().map(|&e| if d.elem(e).unwrap().0 == HTML_NS { d.elem(e).unwrap().1 } else { "#foreign" }).collect();
    // "optionally followed by noframes" is read as "any number of noframes elements": the
    // after-frameset / after-after-frameset modes insert one per <noframes> start tag (DESIGN.md §4)
    let ok = matches!(names.as_slice(), ["head", "body"])
        || (names.len() >= 2 && names[0] == "head" && names[1] == "frameset" && names[2..].iter().all(|n| *n == "noframes"));
    if !ok {
        return Some(format!("element children of html are {names:?}"));
    }
    for &c in &d.nodes[html].children {
        if let Kind::Text(t) = &d.nodes[c].kind {
            if !t.chars().all(|ch| matches!(ch, '\t' | '\n' | '\x0C' | '\r' | ' ')) {
                return Some(format!("non-whitespace text {t:?} is a child of html"));
            }
        }
    }
    // global rules: walk everything reachable
    let mut stack = vec![0usize];
    while let Some(n) = stack.pop() {
        let node = &d.nodes[n];
        if !node.children.is_empty() && !matches!(node.kind, Kind::Document | Kind::Fragment | Kind::Element { .. }) {
            return Some(format!("node #{n} of kind {:?} has children", node.kind));
        }
        let mut prev_text = false;
        for &c in &node.children {
            if d.nodes[c].parent != Some(n) {
                return Some(format!("child #{c} of #{n} has parent link {:?}", d.nodes[c].parent));
            }
            match &d.nodes[c].kind {
                Kind::Text(t) => {
                    if t.is_empty() {
                        return Some("empty text node".into());
                    }
                    if prev_text {
                        return Some("two adjacent text siblings".into());
                    }
                    prev_text = true;
                },
                _ => prev_text = false,
            }
            stack.push(c);
        }
        if let Kind::Element { template: Some(t), .. } = &node.kind {
            stack.push(*t);
        }
    }
    None
}

pub struct VerifTokNoLine<'a>(pub &'a html5ever::tokenizer::verif::VerifTok);
impl std::fmt::Debug for VerifTokNoLine<'_> {
    fn fmt(&self, f: &mut std::fmt::Formatter) -> std::fmt::Result {
        let mut d = self.0.clone();
        d.current_line = 0;
        write!(f, "{d:?}")
    }
}
