//! C12 orchestrator: sequential histories under the tracking allocator
//! (vfalloc), loom interleavings (loomjob), valgrind memcheck (thorough).
use crate::common::*;
use serde_json::{json, Value};
use std::process::Command;

fn read_json(p: &str) -> Value {
    std::fs::read_to_string(p)
        .ok()
        .and_then(|s| serde_json::from_str(&s).ok())
        .unwrap_or(Value::Null)
}

pub fn main(ctx: &Ctx) -> ! {
    let tier = ctx.tier.name();
    // 1. sequential part
    let seq_out = "/verif/engine/target/c12_seq.json";
    let _ = std::fs::remove_file(seq_out);
    let st = Command::new("/verif/engine/target/release/vfalloc")
        .args(["C12", tier, seq_out])
        .status()
        .unwrap_or_else(|e| machinery(&format!("vfalloc: {e}")));
    let seq = read_json(seq_out);
    match st.code() {
        Some(0) => {},
        Some(1) => {
            // vfalloc printed its own VIOLATION lines (property C12)
            ctx.nviol.fetch_add(seq["violations"].as_u64().unwrap_or(1).max(1), std::sync::atomic::Ordering::SeqCst);
        },
        Some(c) => machinery(&format!("vfalloc exited with {c}")),
        None => {
            // killed by a signal while running tendril operations under the tracking allocator: the subject
            // read or wrote outside a live buffer (or corrupted the heap) - a verdict, as in ./check
            use std::os::unix::process::ExitStatusExt;
            let sig = st.signal().unwrap_or(0);
            if matches!(sig, 4 | 6 | 7 | 11) {
                ctx.violation(
                    "crash",
                    &format!("sequential histories under the tracking allocator: process killed by signal {sig}"),
                    serde_json::json!({"signal": sig, "note": "re-run ./check C12 quick to reproduce; the C11 run of the same histories names the history when the corruption is visible in content"}),
                );
            } else {
                machinery(&format!("vfalloc was killed by signal {sig}"));
            }
        },
    }
    // 2. loom part
    let loom_out = "/verif/loomjob/target/c12_loom.json";
    let _ = std::fs::remove_file(loom_out);
    let o = Command::new("/verif/loomjob/target/release/loomjob")
        .args([tier, loom_out])
        .output()
        .unwrap_or_else(|e| machinery(&format!("loomjob: {e}")));
    let lj = read_json(loom_out);
    match o.status.code() {
        Some(0) => {},
        Some(1) if lj["failed_scenario"].is_string() => {
            let sc = lj["failed_scenario"].as_str().unwrap().to_string();
            ctx.violation(
                "loom",
                &format!("loom:{sc}"),
                json!({"message": lj["message"], "bound": lj["bound"], "how": "loomjob --scenario <acts> replays the exploration of this scenario"}),
            );
        },
        // killed by a signal (abort after a double panic): the panic hook has recorded the first panic and
        // the scenario; a panic raised by loom or by the harness monitors inside a scenario is a finding
        None if lj["failed_scenario"].is_string() && lj["machinery"] == json!(false) && !lj["failed_scenario"].as_str().unwrap().is_empty() => {
            let sc = lj["failed_scenario"].as_str().unwrap().to_string();
            ctx.violation(
                "loom",
                &format!("loom:{sc}"),
                json!({"message": lj["message"], "note": "the loom process aborted after this first panic (second panic while unwinding)", "how": "loomjob --scenario <acts> replays the exploration of this scenario"}),
            );
        },
        c => {
            eprintln!("{}", String::from_utf8_lossy(&o.stdout));
            eprintln!("{}", String::from_utf8_lossy(&o.stderr));
            machinery(&format!("loomjob exited with {c:?}"));
        },
    }
    // 3. valgrind (thorough only): out-of-bounds / after-free READS that the allocator cannot see
    let mut vg = json!("not run in quick tier");
    if ctx.tier == Tier::Thorough {
        let o = Command::new("valgrind")
            .args(["--error-exitcode=99", "--leak-check=full", "--errors-for-leak-kinds=definite,indirect", "-q",
                   "/verif/engine/target/release/vfalloc", "C12", "--passthrough", "3"])
            .output()
            .unwrap_or_else(|e| machinery(&format!("valgrind: {e}")));
        let so = String::from_utf8_lossy(&o.stdout).to_string();
        let se = String::from_utf8_lossy(&o.stderr).to_string();
        match o.status.code() {
            Some(0) => vg = json!({"result": "clean", "stdout": so.trim()}),
            Some(99) => {
                ctx.violation("valgrind", "valgrind:passthrough depth 3", json!({"stderr": se.chars().take(4000).collect::<String>()}));
                vg = json!({"result": "errors"});
            },
            c => machinery(&format!("valgrind run exited with {c:?}: {se}")),
        }
    }
    let evals = seq["evaluations"].as_u64().unwrap_or(0) + lj["interleavings"].as_u64().unwrap_or(0);
    let distinct = seq["distinct_shapes"].as_u64().unwrap_or(0) + lj["scenarios"].as_u64().unwrap_or(0);
    ctx.assume("sequential histories: same enumeration as C11 at the stated depth; allocator attributes blocks to tendril calls via a thread-local flag");
    ctx.assume("loom explores the refcount atomics/fences of /repo's tendril (compiled with --cfg html5ever_verif_loom); buffer bytes are raw memory, represented to loom by a shadow UnsafeCell (harness reads = reads, the allocator's free = write)");
    ctx.assume("SendTendril round trips are covered sequentially only (loom's AtomicUsize is not usize-sized, so the cross-atomicity transmute cannot run under loom)");
    ctx.finish(
        "fault_enumeration",
        json!({
            "evaluations": evals,
            "distinct_nontrivial": distinct,
            "rule": "every C11 operation history re-executed under a tracking allocator (red zones, poison+quarantine, leak check per execution) + every interleaving loom generates for every assignment of actions {Drop,ReadDrop,CloneDrop,SubDrop,PushDrop,PopRead,CloneKeep} to 2-4 handles of one shared buffer; distinct_nontrivial = representation shapes reached + loom scenarios",
            "exhaustive": true,
            "sequential": seq,
            "loom": lj,
            "valgrind": vg,
            "samples": [lj["samples"].clone(), seq["jobs"][0].clone()],
        }),
    )
}

pub fn replay(ctx: &Ctx, witness: &str) {
    if let Some(sc) = witness.strip_prefix("loom:") {
        let out = "/verif/loomjob/target/c12_replay.json";
        let o = Command::new("/verif/loomjob/target/release/loomjob")
            .args(["--scenario", sc, out])
            .output()
            .unwrap_or_else(|e| machinery(&format!("loomjob: {e}")));
        println!("{}", String::from_utf8_lossy(&o.stdout));
        if o.status.code() == Some(1) {
            ctx.violation("loom", witness, read_json(out));
        }
    } else if witness.starts_with("sequential histories") {
        // the process died: re-run the sequential part as the check does
        use std::os::unix::process::ExitStatusExt;
        let st = Command::new("/verif/engine/target/release/vfalloc")
            .args(["C12", "quick", "/verif/engine/target/c12_seq_replay.json"])
            .status()
            .unwrap_or_else(|e| machinery(&format!("vfalloc: {e}")));
        if st.code() == Some(1) || matches!(st.signal(), Some(4 | 6 | 7 | 11)) {
            ctx.violation("crash", witness, serde_json::json!({"status": format!("{st:?}")}));
        }
        println!("replay: {}", if ctx.violations() == 0 { "passes" } else { "FAILS" });
    } else {
        let st = Command::new("/verif/engine/target/release/vfalloc")
            .args(["C12", "--replay-witness", witness])
            .status()
            .unwrap_or_else(|e| machinery(&format!("vfalloc: {e}")));
        if st.code() == Some(1) {
            ctx.nviol.fetch_add(1, std::sync::atomic::Ordering::SeqCst);
        }
    }
}
