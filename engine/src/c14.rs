//! C14: exhaustive sweep of named and numeric character references.
use crate::common::*;
use crate::rtok::entities;
use crate::tokh::*;
use rayon::prelude::*;
use serde_json::json;
use std::collections::BTreeSet;
use std::sync::atomic::{AtomicU64, Ordering};
use std::sync::Mutex;

const FOLLOWERS: [&str; 16] = ["", "a", "Z", "0", ";", "=", " ", "<", "&", "\"", "'", "\n", "\r", "\u{e9}", "#", ">"];

struct Ctxt {
    name: &'static str,
    cfg: TokCfg,
    pre: &'static str,
    post: &'static str,
}

fn contexts() -> Vec<Ctxt> {
    vec![
        Ctxt { name: "data", cfg: TokCfg::default(), pre: "", post: "" },
        Ctxt { name: "rcdata", cfg: TokCfg { start: 2, last_start_tag: Some("t"), ..Default::default() }, pre: "", post: "" },
        Ctxt { name: "attr-dq", cfg: TokCfg::default(), pre: "<a b=\"", post: "\">" },
        Ctxt { name: "attr-sq", cfg: TokCfg::default(), pre: "<a b='", post: "'>" },
        Ctxt { name: "attr-uq", cfg: TokCfg::default(), pre: "<a b=", post: " >" },
    ]
}

struct Acc {
    evals: AtomicU64,
    cases: AtomicU64,
    outcomes: Mutex<BTreeSet<u128>>,
}

/// run `pre+body+post` unchunked and cut at every char boundary inside body (2 chunks)
fn check_case(ctx: &Ctx, acc: &Acc, c: &Ctxt, body: &str, all_cuts: bool, local: &mut BTreeSet<u128>) {
    let full = format!("{}{}{}", c.pre, body, c.post);
    let r = run_ref(&c.cfg, &full);
    local.insert(digest(&r.items));
    acc.cases.fetch_add(1, Ordering::Relaxed);
    let mut scheds: Vec<Vec<Feed>> = vec![vec![Feed::Chunk(full.clone())]];
    let lo = c.pre.len();
    let hi = lo + body.len();
    if all_cuts {
        for i in lo + 1..=hi {
            if full.is_char_boundary(i) && i < full.len() {
                scheds.push(vec![Feed::Chunk(full[..i].to_string()), Feed::Chunk(full[i..].to_string())]);
            }
        }
    }
    for s in scheds {
        acc.evals.fetch_add(1, Ordering::Relaxed);
        match guarded(|| run_real(&c.cfg, &s, &[], true, false)) {
            Err(p) => {
                ctx.violation("panic", &crate::c01::witness(&c.cfg, &s), json!({"panic": p, "context": c.name}));
            },
            Ok(real) => {
                if let Some((k, m)) = compare(&real, &r, false) {
                    ctx.violation(&k, &crate::c01::witness(&c.cfg, &s), json!({"message": m, "context": c.name, "reference": body}));
                }
            },
        }
    }
}

pub fn main(ctx: &Ctx) -> ! {
    let ents = entities();
    let mut names: Vec<&String> = ents.map.keys().collect();
    names.sort();
    let acc = Acc { evals: AtomicU64::new(0), cases: AtomicU64::new(0), outcomes: Mutex::new(BTreeSet::new()) };
    let ctxs = contexts();
    // 0. table audit through the public map
    let mut audit_problems = 0;
    {
        let real = &web_atoms::NAMED_ENTITIES;
        let mut seen = 0;
        for (k, v) in real.entries() {
            seen += 1;
            match ents.map.get(*k) {
                Some(cps) => {
                    let want = (cps[0], cps.get(1).copied().unwrap_or(0));
                    if *v != want {
                        audit_problems += 1;
                        ctx.violation("table-value", &format!("entity {k}"), json!({"real": format!("{v:?}"), "whatwg": format!("{want:?}")}));
                    }
                },
                None => {
                    if v.0 != 0 {
                        audit_problems += 1;
                        ctx.violation("table-extra", &format!("entity {k}"), json!({"real": format!("{v:?}")}));
                    } else if !k.is_empty() && !ents.prefixes.contains(*k) {
                        audit_problems += 1;
                        ctx.violation("table-prefix", &format!("prefix {k}"), json!({"note": "prefix entry that is not a prefix of any name"}));
                    }
                },
            }
        }
        for k in ents.map.keys() {
            if real.get(k.as_str()).is_none() {
                audit_problems += 1;
                ctx.violation("table-missing", &format!("entity {k}"), json!({}));
            }
        }
        for p in &ents.prefixes {
            if real.get(p.as_str()).is_none() {
                audit_problems += 1;
                ctx.violation("table-missing-prefix", &format!("prefix {p}"), json!({}));
            }
        }
        acc.evals.fetch_add(seen, Ordering::Relaxed);
    }
    // 1. named references
    names.par_iter().for_each(|name| {
        let mut local = BTreeSet::new();
        let mut stems: Vec<String> = vec![name.to_string()];
        // truncated form (drop the last character of the name)
        let mut t = name.to_string();
        t.pop();
        if !t.is_empty() {
            stems.push(t);
        }
        // longest-prefix-extended: name + one more alphanumeric is covered by followers a/Z/0
        for c in &ctxs {
            for stem in &stems {
                for f in FOLLOWERS {
                    let body = format!("&{stem}{f}");
                    check_case(ctx, &acc, c, &body, true, &mut local);
                }
            }
        }
        acc.outcomes.lock().unwrap().extend(local);
    });
    // 2. numeric references
    let full_numeric = true;
    let thorough = ctx.tier == Tier::Thorough;
    let blocks: Vec<u32> = (0..=0x110000u32).step_by(0x1000).collect();
    blocks.par_iter().for_each(|&b0| {
        let mut local = BTreeSet::new();
        for v in b0..(b0 + 0x1000).min(0x110001) {
            let forms: Vec<String> = if full_numeric {
                vec![format!("&#{v}"), format!("&#x{v:x}"), format!("&#X{v:X}"), format!("&#x{v:X}")]
            } else {
                vec![format!("&#x{v:x}"), format!("&#{v}")]
            };
            for f in forms {
                for semi in [";", ""] {
                    if !full_numeric && semi.is_empty() && v % 16 != 0 {
                        continue;
                    }
                    let body = format!("{f}{semi}");
                    let interesting = v < 0x200 || (0xD700..0xE100).contains(&v) || (0xFDC0..0xFE00).contains(&v) || (v & 0xFFFF) >= 0xFFF0 || v >= 0x10FF00;
                    for (ci, c) in ctxs.iter().enumerate() {
                        if ci == 0 || ci == 2 || interesting || thorough {
                            // quick: chunk cuts only on the interesting values (every cut position)
                            check_case(ctx, &acc, c, &body, interesting || thorough, &mut local);
                        }
                    }
                    if interesting {
                        // followers and leading zeros
                        for fo in ["a", "g", "\n", "\r", "<", "&"] {
                            check_case(ctx, &acc, &ctxs[0], &format!("{f}{semi}{fo}"), false, &mut local);
                        }
                        for z in ["0", "00", "000"] {
                            let zf = f.replacen("&#x", &format!("&#x{z}"), 1).replacen("&#X", &format!("&#X{z}"), 1);
                            let zf = if zf == f { f.replacen("&#", &format!("&#{z}"), 1) } else { zf };
                            check_case(ctx, &acc, &ctxs[0], &format!("{zf}{semi}"), false, &mut local);
                        }
                    }
                }
            }
        }
        acc.outcomes.lock().unwrap().extend(local);
    });
    // 3. overflow lengths and non-references
    let mut extra: Vec<String> = vec![];
    for n in 7..=22 {
        extra.push(format!("&#{};", "9".repeat(n)));
        extra.push(format!("&#x{};", "f".repeat(n)));
        extra.push(format!("&#x{}", "F".repeat(n)));
        extra.push(format!("&#{}1;", "0".repeat(n)));
    }
    for k in [1u64, 2, 3, 16, 255, 4096] {
        for d in [-1i64, 0, 1, 65] {
            let v = (k << 32) as i128 + d as i128;
            extra.push(format!("&#{v};"));
            extra.push(format!("&#x{v:x};"));
        }
    }
    for s in ["&", "&;", "&#", "&#;", "&#x", "&#x;", "&#X;", "&#xg;", "&#a;", "& ", "&&", "&<", "&=", "&\n", "&\r\n", "&#\n", "&#x\r", "&zzzz;", "&zzzz", "&a;", "&1;", "&1", "&amp", "&ampamp;", "&ampa", "&amp=", "&notit;", "&notin", "&noti", "&no", "&\u{e9};", "&#\u{e9}", "&a\0", "&\0"] {
        extra.push(s.to_string());
    }
    extra.par_iter().for_each(|body| {
        let mut local = BTreeSet::new();
        for c in &ctxs {
            check_case(ctx, &acc, c, body, true, &mut local);
            check_case(ctx, &acc, c, &format!("{body}x"), true, &mut local);
        }
        acc.outcomes.lock().unwrap().extend(local);
    });
    ctx.assume("expected values come from R-tok's character reference states over python's html.entities.html5 (2231 entries, independent copy of the WHATWG table)");
    ctx.assume("numeric sweep: every value 0..=0x110000 as decimal, #x lower, #X upper, #x upper, with and without ';', in data and double-quoted attribute context; quick cuts the reference at every position only for values near range boundaries (all five contexts there), thorough for every value in every context");
    let _ = audit_problems;
    ctx.finish(
        "exploration",
        json!({
            "evaluations": acc.evals.load(Ordering::Relaxed),
            "cases": acc.cases.load(Ordering::Relaxed),
            "distinct_nontrivial": acc.outcomes.lock().unwrap().len(),
            "rule": "every name of the table x {exact, last char dropped} x 16 followers x {data, RCDATA, attribute dq/sq/uq}, each unchunked and cut at every position inside the reference; table audit through web_atoms::NAMED_ENTITIES; every numeric value 0..=0x110000; overflow lengths; non-references. distinct_nontrivial = distinct expected token streams.",
            "exhaustive": true,
            "names": names.len(),
            "followers": FOLLOWERS.len(),
            "contexts": ctxs.len(),
            "samples": ["&notin;", "<a b=\"&amp=\">", "&#x80;", "&#1114112;", "&#x0000000041"],
        }),
    )
}

pub fn replay(ctx: &Ctx, v: &serde_json::Value) {
    crate::c01::replay(ctx, v, false)
}
