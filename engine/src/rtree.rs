//! R-tree: reference transliteration of the WHATWG tree-construction stage
//! (https://html.spec.whatwg.org/multipage/parsing.html#tree-construction)
//! over the arena DOM of dom.rs, driving R-tok. Boring on purpose: Strings
//! and Vecs, one function per insertion mode, spec order of the rules.
//! Parse errors are not modelled. Scripts never run.
//!
//! html5ever-specific observables mirrored explicitly: the per-element
//! duplicate-attribute flag (copied from the token), attach_declarative_shadow
//! answering false, text merged into the preceding text node on insertion.
use crate::dom::*;
use crate::rtok::{self, RTok, RToken, S};
use std::cell::Cell;
use std::rc::Rc;

#[derive(Clone, Copy, Debug, PartialEq, Eq)]
pub enum Mode {
    Initial,
    BeforeHtml,
    BeforeHead,
    InHead,
    InHeadNoscript,
    AfterHead,
    InBody,
    Text,
    InTable,
    InTableText,
    InCaption,
    InColumnGroup,
    InTableBody,
    InRow,
    InCell,
    InTemplate,
    AfterBody,
    InFrameset,
    AfterFrameset,
    AfterAfterBody,
    AfterAfterFrameset,
}

#[derive(Clone, Debug, PartialEq)]
pub struct TagTok {
    pub end: bool,
    pub name: String,
    pub attrs: Vec<(String, String)>,
    pub self_closing: bool,
    pub dup: bool,
}

#[derive(Clone, Debug)]
enum Afe {
    Marker,
    El(usize, TagTok),
}

#[derive(Clone, Debug)]
enum Tk {
    Doctype { name: Option<String>, public: Option<String>, system: Option<String>, fq: bool },
    Tag(TagTok),
    Comment(String),
    Char(char),
    Eof,
}

pub struct RCfg {
    pub scripting: bool,
    pub srcdoc: bool,
    /// 0 no-quirks, 1 limited, 2 quirks (initial value)
    pub quirks: u8,
    /// (ns, local, attrs, with_form, allows_scripting)
    pub fragment: Option<(String, String, Vec<(String, String)>, bool, bool)>,
    pub discard_bom: bool,
}

pub struct RTree {
    pub dom: Dom,
    pub quirks: u8,
    mode: Mode,
    orig_mode: Mode,
    template_modes: Vec<Mode>,
    open: Vec<usize>,
    afe: Vec<Afe>,
    head: Option<usize>,
    form: Option<usize>,
    frameset_ok: bool,
    scripting: bool,
    srcdoc: bool,
    foster: bool,
    context: Option<usize>,
    pending_table_chars: Vec<char>,
    skip_lf: bool,
    switch: Option<S>,
    done: bool,
}

fn is_ws(c: char) -> bool {
    matches!(c, '\t' | '\n' | '\x0C' | '\r' | ' ')
}

const SPECIAL_HTML: &[&str] = &[
    "address", "applet", "area", "article", "aside", "base", "basefont", "bgsound", "blockquote", "body", "br", "button", "caption",
    "center", "col", "colgroup", "dd", "details", "dir", "div", "dl", "dt", "embed", "fieldset", "figcaption", "figure", "footer", "form",
    "frame", "frameset", "h1", "h2", "h3", "h4", "h5", "h6", "head", "header", "hgroup", "hr", "html", "iframe", "img", "input", "keygen",
    "li", "link", "listing", "main", "marquee", "menu", "meta", "nav", "noembed", "noframes", "noscript", "object", "ol", "p", "param",
    "plaintext", "pre", "script", "search", "section", "select", "source", "style", "summary", "table", "tbody", "td", "template", "textarea",
    "tfoot", "th", "thead", "title", "tr", "track", "ul", "wbr", "xmp",
];
const FORMATTING: &[&str] = &["a", "b", "big", "code", "em", "font", "i", "nobr", "s", "small", "strike", "strong", "tt", "u"];
const HEADINGS: &[&str] = &["h1", "h2", "h3", "h4", "h5", "h6"];
const IMPLIED_END: &[&str] = &["dd", "dt", "li", "optgroup", "option", "p", "rb", "rp", "rt", "rtc"];
const IMPLIED_END_THOROUGH: &[&str] = &["caption", "colgroup", "dd", "dt", "li", "optgroup", "option", "p", "rb", "rp", "rt", "rtc", "tbody", "td", "tfoot", "th", "thead", "tr"];

pub const SVG_TAG_FIXUPS: &[(&str, &str)] = &[
    ("altglyph", "altGlyph"), ("altglyphdef", "altGlyphDef"), ("altglyphitem", "altGlyphItem"), ("animatecolor", "animateColor"),
    ("animatemotion", "animateMotion"), ("animatetransform", "animateTransform"), ("clippath", "clipPath"), ("feblend", "feBlend"),
    ("fecolormatrix", "feColorMatrix"), ("fecomponenttransfer", "feComponentTransfer"), ("fecomposite", "feComposite"),
    ("feconvolvematrix", "feConvolveMatrix"), ("fediffuselighting", "feDiffuseLighting"), ("fedisplacementmap", "feDisplacementMap"),
    ("fedistantlight", "feDistantLight"), ("fedropshadow", "feDropShadow"), ("feflood", "feFlood"), ("fefunca", "feFuncA"),
    ("fefuncb", "feFuncB"), ("fefuncg", "feFuncG"), ("fefuncr", "feFuncR"), ("fegaussianblur", "feGaussianBlur"), ("feimage", "feImage"),
    ("femerge", "feMerge"), ("femergenode", "feMergeNode"), ("femorphology", "feMorphology"), ("feoffset", "feOffset"),
    ("fepointlight", "fePointLight"), ("fespecularlighting", "feSpecularLighting"), ("fespotlight", "feSpotLight"), ("fetile", "feTile"),
    ("feturbulence", "feTurbulence"), ("foreignobject", "foreignObject"), ("glyphref", "glyphRef"), ("lineargradient", "linearGradient"),
    ("radialgradient", "radialGradient"), ("textpath", "textPath"),
];
pub const SVG_ATTR_FIXUPS: &[(&str, &str)] = &[
    ("attributename", "attributeName"), ("attributetype", "attributeType"), ("basefrequency", "baseFrequency"), ("baseprofile", "baseProfile"),
    ("calcmode", "calcMode"), ("clippathunits", "clipPathUnits"), ("diffuseconstant", "diffuseConstant"), ("edgemode", "edgeMode"),
    ("filterunits", "filterUnits"), ("glyphref", "glyphRef"), ("gradienttransform", "gradientTransform"), ("gradientunits", "gradientUnits"),
    ("kernelmatrix", "kernelMatrix"), ("kernelunitlength", "kernelUnitLength"), ("keypoints", "keyPoints"), ("keysplines", "keySplines"),
    ("keytimes", "keyTimes"), ("lengthadjust", "lengthAdjust"), ("limitingconeangle", "limitingConeAngle"), ("markerheight", "markerHeight"),
    ("markerunits", "markerUnits"), ("markerwidth", "markerWidth"), ("maskcontentunits", "maskContentUnits"), ("maskunits", "maskUnits"),
    ("numoctaves", "numOctaves"), ("pathlength", "pathLength"), ("patterncontentunits", "patternContentUnits"),
    ("patterntransform", "patternTransform"), ("patternunits", "patternUnits"), ("pointsatx", "pointsAtX"), ("pointsaty", "pointsAtY"),
    ("pointsatz", "pointsAtZ"), ("preservealpha", "preserveAlpha"), ("preserveaspectratio", "preserveAspectRatio"),
    ("primitiveunits", "primitiveUnits"), ("refx", "refX"), ("refy", "refY"), ("repeatcount", "repeatCount"), ("repeatdur", "repeatDur"),
    ("requiredextensions", "requiredExtensions"), ("requiredfeatures", "requiredFeatures"), ("specularconstant", "specularConstant"),
    ("specularexponent", "specularExponent"), ("spreadmethod", "spreadMethod"), ("startoffset", "startOffset"), ("stddeviation", "stdDeviation"),
    ("stitchtiles", "stitchTiles"), ("surfacescale", "surfaceScale"), ("systemlanguage", "systemLanguage"), ("tablevalues", "tableValues"),
    ("targetx", "targetX"), ("targety", "targetY"), ("textlength", "textLength"), ("viewbox", "viewBox"), ("viewtarget", "viewTarget"),
    ("xchannelselector", "xChannelSelector"), ("ychannelselector", "yChannelSelector"), ("zoomandpan", "zoomAndPan"),
];
const XLINK_NS: &str = "http://www.w3.org/1999/xlink";
const XML_NS: &str = "http://www.w3.org/XML/1998/namespace";
const XMLNS_NS: &str = "http://www.w3.org/2000/xmlns/";

pub const BREAKOUT: &[&str] = &[
    "b", "big", "blockquote", "body", "br", "center", "code", "dd", "div", "dl", "dt", "em", "embed", "h1", "h2", "h3", "h4", "h5", "h6",
    "head", "hr", "i", "img", "li", "listing", "menu", "meta", "nobr", "ol", "p", "pre", "ruby", "s", "small", "span", "strong", "strike",
    "sub", "sup", "table", "tt", "u", "ul", "var",
];

/// quirks-mode public identifier prefixes
pub const QUIRKY_PUBLIC_PREFIXES: &[&str] = &[
    "+//silmaril//dtd html pro v0r11 19970101//", "-//as//dtd html 3.0 aswedit + extensions//", "-//advasoft ltd//dtd html 3.0 aswedit + extensions//",
    "-//ietf//dtd html 2.0 level 1//", "-//ietf//dtd html 2.0 level 2//", "-//ietf//dtd html 2.0 strict level 1//",
    "-//ietf//dtd html 2.0 strict level 2//", "-//ietf//dtd html 2.0 strict//", "-//ietf//dtd html 2.0//", "-//ietf//dtd html 2.1e//",
    "-//ietf//dtd html 3.0//", "-//ietf//dtd html 3.2 final//", "-//ietf//dtd html 3.2//", "-//ietf//dtd html 3//",
    "-//ietf//dtd html level 0//", "-//ietf//dtd html level 1//", "-//ietf//dtd html level 2//", "-//ietf//dtd html level 3//",
    "-//ietf//dtd html strict level 0//", "-//ietf//dtd html strict level 1//", "-//ietf//dtd html strict level 2//",
    "-//ietf//dtd html strict level 3//", "-//ietf//dtd html strict//", "-//ietf//dtd html//", "-//metrius//dtd metrius presentational//",
    "-//microsoft//dtd internet explorer 2.0 html strict//", "-//microsoft//dtd internet explorer 2.0 html//",
    "-//microsoft//dtd internet explorer 2.0 tables//", "-//microsoft//dtd internet explorer 3.0 html strict//",
    "-//microsoft//dtd internet explorer 3.0 html//", "-//microsoft//dtd internet explorer 3.0 tables//", "-//netscape comm. corp.//dtd html//",
    "-//netscape comm. corp.//dtd strict html//", "-//o'reilly and associates//dtd html 2.0//", "-//o'reilly and associates//dtd html extended 1.0//",
    "-//o'reilly and associates//dtd html extended relaxed 1.0//", "-//sq//dtd html 2.0 hotmetal + extensions//",
    "-//softquad software//dtd hotmetal pro 6.0::19990601::extensions to html 4.0//", "-//softquad//dtd hotmetal pro 4.0::19971010::extensions to html 4.0//",
    "-//spyglass//dtd html 2.0 extended//", "-//sun microsystems corp.//dtd hotjava html//", "-//sun microsystems corp.//dtd hotjava strict html//",
    "-//w3c//dtd html 3 1995-03-24//", "-//w3c//dtd html 3.2 draft//", "-//w3c//dtd html 3.2 final//", "-//w3c//dtd html 3.2//",
    "-//w3c//dtd html 3.2s draft//", "-//w3c//dtd html 4.0 frameset//", "-//w3c//dtd html 4.0 transitional//", "-//w3c//dtd html experimental 19960712//",
    "-//w3c//dtd html experimental 970421//", "-//w3c//dtd w3 html//", "-//w3o//dtd w3 html 3.0//", "-//webtechs//dtd mozilla html 2.0//",
    "-//webtechs//dtd mozilla html//",
];

impl RTree {
    fn new(cfg: &RCfg) -> RTree {
        RTree {
            dom: Dom::new(),
            quirks: cfg.quirks,
            mode: Mode::Initial,
            orig_mode: Mode::Initial,
            template_modes: vec![],
            open: vec![],
            afe: vec![],
            head: None,
            form: None,
            frameset_ok: true,
            scripting: cfg.scripting,
            srcdoc: cfg.srcdoc,
            foster: false,
            context: None,
            pending_table_chars: vec![],
            skip_lf: false,
            switch: None,
            done: false,
        }
    }

    /// same format as treeh::TreeOut::ctl_summary
    fn ctl_summary(&self) -> String {
        let name = |n: &usize| -> String {
            match self.dom.elem(*n) {
                Some((ns, l)) => format!("{}:{l}", if ns == HTML_NS { "h" } else if ns == SVG_NS { "s" } else if ns == MATHML_NS { "m" } else { "?" }),
                None => "#".into(),
            }
        };
        let stack: Vec<String> = self.open.iter().map(name).collect();
        let afe: Vec<String> = self.afe.iter().map(|a| match a { Afe::Marker => "|".to_string(), Afe::El(n, t) => format!("{}{:?}", name(n), t.attrs) }).collect();
        let pending: String = self.pending_table_chars.iter().collect();
        let orig = if matches!(self.mode, Mode::Text | Mode::InTableText) { Some(format!("{:?}", self.orig_mode)) } else { None };
        let tmpl: Vec<String> = self.template_modes.iter().map(|m| format!("{m:?}")).collect();
        format!(
            "mode={:?} orig={:?} tmpl={:?} stack={:?} afe={:?} fok={} head={} form={} pending={:?} skiplf={}",
            self.mode, orig, tmpl, stack, afe, self.frameset_ok, self.head.is_some(), self.form.is_some(), pending, self.skip_lf
        )
    }

    fn state_digest(&self, tok: &RTok, trailing_cr: bool) -> u128 {
        let names = |v: &[usize]| -> Vec<String> { v.iter().map(|&n| format!("{:?}#{n}", self.dom.elem(n))).collect() };
        let afe: Vec<String> = self
            .afe
            .iter()
            .map(|a| match a {
                Afe::Marker => "|".to_string(),
                Afe::El(n, t) => format!("{n}:{}:{:?}", t.name, t.attrs),
            })
            .collect();
        crate::common::digest(&(
            format!("{:?}|{:?}|{:?}|{}|{}|{}|{:?}|{}", self.mode, self.orig_mode, self.template_modes, self.frameset_ok, self.foster, self.skip_lf, self.pending_table_chars, self.quirks),
            self.head,
            self.form,
            names(&self.open),
            afe,
            tok.ctl_key(),
            trailing_cr,
            self.dom.render_doc(),
        ))
    }

    // ------------------------------------------------------------ helpers
    fn current(&self) -> usize {
        *self.open.last().expect("stack of open elements is empty")
    }
    fn adjusted_current(&self) -> Option<usize> {
        if self.open.is_empty() {
            return None;
        }
        if self.context.is_some() && self.open.len() == 1 {
            self.context
        } else {
            Some(self.current())
        }
    }
    fn is_html(&self, n: usize, name: &str) -> bool {
        self.dom.is_html(n, name)
    }
    fn html_in(&self, n: usize, names: &[&str]) -> bool {
        matches!(self.dom.elem(n), Some((HTML_NS, l)) if names.contains(&l))
    }
    fn is_special(&self, n: usize) -> bool {
        match self.dom.elem(n) {
            Some((HTML_NS, l)) => SPECIAL_HTML.contains(&l),
            Some((MATHML_NS, l)) => matches!(l, "mi" | "mo" | "mn" | "ms" | "mtext" | "annotation-xml"),
            Some((SVG_NS, l)) => matches!(l, "foreignObject" | "desc" | "title"),
            _ => false,
        }
    }
    fn scope_boundary(&self, n: usize, extra: &[&str]) -> bool {
        match self.dom.elem(n) {
            Some((HTML_NS, l)) => matches!(l, "applet" | "caption" | "html" | "table" | "td" | "th" | "marquee" | "object" | "select" | "template") || extra.contains(&l),
            Some((MATHML_NS, l)) => matches!(l, "mi" | "mo" | "mn" | "ms" | "mtext" | "annotation-xml"),
            Some((SVG_NS, l)) => matches!(l, "foreignObject" | "desc" | "title"),
            _ => false,
        }
    }
    /// "has an element target node in a specific scope"
    fn in_scope_pred(&self, target: &dyn Fn(usize) -> bool, extra: &[&str]) -> bool {
        for &n in self.open.iter().rev() {
            if target(n) {
                return true;
            }
            if self.scope_boundary(n, extra) {
                return false;
            }
        }
        false
    }
    fn in_scope(&self, name: &str) -> bool {
        self.in_scope_pred(&|n| self.is_html(n, name), &[])
    }
    fn in_list_item_scope(&self, name: &str) -> bool {
        self.in_scope_pred(&|n| self.is_html(n, name), &["ol", "ul"])
    }
    fn in_button_scope(&self, name: &str) -> bool {
        self.in_scope_pred(&|n| self.is_html(n, name), &["button"])
    }
    fn in_table_scope(&self, name: &str) -> bool {
        for &n in self.open.iter().rev() {
            if self.is_html(n, name) {
                return true;
            }
            if self.html_in(n, &["html", "table", "template"]) {
                return false;
            }
        }
        false
    }
    fn stack_has(&self, name: &str) -> bool {
        self.open.iter().any(|&n| self.is_html(n, name))
    }
    fn pop(&mut self) -> usize {
        self.open.pop().expect("pop from empty stack")
    }
    fn pop_until(&mut self, name: &str) {
        while let Some(n) = self.open.pop() {
            if self.is_html(n, name) {
                break;
            }
        }
    }
    fn pop_until_any(&mut self, names: &[&str]) {
        while let Some(n) = self.open.pop() {
            if self.html_in(n, names) {
                break;
            }
        }
    }
    fn generate_implied_end_tags(&mut self, except: Option<&str>) {
        while let Some(&n) = self.open.last() {
            if self.html_in(n, IMPLIED_END) && !except.map(|e| self.is_html(n, e)).unwrap_or(false) {
                self.open.pop();
            } else {
                break;
            }
        }
    }
    fn generate_all_implied_end_tags_thoroughly(&mut self) {
        while let Some(&n) = self.open.last() {
            if self.html_in(n, IMPLIED_END_THOROUGH) {
                self.open.pop();
            } else {
                break;
            }
        }
    }

    /// "appropriate place for inserting a node": (parent, insert-before)
    fn appropriate_place(&self, override_target: Option<usize>) -> (usize, Option<usize>) {
        let target = override_target.unwrap_or_else(|| self.current());
        let (parent, before) = if self.foster && self.html_in(target, &["table", "tbody", "tfoot", "thead", "tr"]) {
            let last_template = self.open.iter().rposition(|&n| self.is_html(n, "template"));
            let last_table = self.open.iter().rposition(|&n| self.is_html(n, "table"));
            match (last_template, last_table) {
                (Some(t), lt) if lt.map(|x| t > x).unwrap_or(true) => (self.template_contents(self.open[t]), None),
                (_, None) => (self.open[0], None),
                (_, Some(ti)) => {
                    let table = self.open[ti];
                    match self.dom.nodes[table].parent {
                        Some(p) => (p, Some(table)),
                        None => (self.open[ti - 1], None),
                    }
                },
            }
        } else {
            (target, None)
        };
        if before.is_none() && self.is_html(parent, "template") {
            return (self.template_contents(parent), None);
        }
        (parent, before)
    }
    fn template_contents(&self, t: usize) -> usize {
        match &self.dom.nodes[t].kind {
            Kind::Element { template: Some(c), .. } => *c,
            _ => t,
        }
    }
    fn insert_at(&mut self, place: (usize, Option<usize>), child: Result<usize, String>) {
        match place.1 {
            None => self.dom.append(place.0, child),
            Some(b) => self.dom.append_before_sibling(b, child),
        }
    }

    fn create_element(&mut self, tag: &TagTok, ns: &str) -> usize {
        let mut attrs: Vec<MAttr> = vec![];
        for (k, v) in &tag.attrs {
            attrs.push(MAttr { ns: String::new(), prefix: None, local: k.clone(), value: v.clone() });
        }
        let mathml_ip = ns == MATHML_NS
            && tag.name == "annotation-xml"
            && tag.attrs.iter().any(|(k, v)| k == "encoding" && (v.eq_ignore_ascii_case("text/html") || v.eq_ignore_ascii_case("application/xhtml+xml")));
        let id = self.dom.add(
            Kind::Element { ns: ns.to_string(), prefix: None, local: tag.name.clone(), attrs, template: None, mathml_ip, dup: tag.dup },
            true,
        );
        if ns == HTML_NS && tag.name == "template" {
            let f = self.dom.add(Kind::Fragment, true);
            self.dom.nodes[f].host = Some(id);
            if let Kind::Element { template, .. } = &mut self.dom.nodes[id].kind {
                *template = Some(f);
            }
        }
        id
    }
    fn insert_element(&mut self, tag: &TagTok, ns: &str) -> usize {
        let place = self.appropriate_place(None);
        let el = self.create_element(tag, ns);
        self.insert_at(place, Ok(el));
        self.open.push(el);
        el
    }
    fn insert_html(&mut self, tag: &TagTok) -> usize {
        self.insert_element(tag, HTML_NS)
    }
    fn insert_phantom(&mut self, name: &str) -> usize {
        let t = TagTok { end: false, name: name.to_string(), attrs: vec![], self_closing: false, dup: false };
        self.insert_html(&t)
    }
    fn insert_char(&mut self, c: char) {
        let place = self.appropriate_place(None);
        if matches!(self.dom.nodes[place.0].kind, Kind::Document) {
            return;
        }
        self.insert_at(place, Err(c.to_string()));
    }
    fn insert_comment(&mut self, data: &str, place: Option<(usize, Option<usize>)>) {
        let place = place.unwrap_or_else(|| self.appropriate_place(None));
        let c = self.dom.add(Kind::Comment(data.to_string()), true);
        self.insert_at(place, Ok(c));
    }

    // ------------------------------------------------------------ active formatting elements
    fn push_afe(&mut self, el: usize, tag: &TagTok) {
        // Noah's Ark clause
        let mut matches = vec![];
        for (i, e) in self.afe.iter().enumerate().rev() {
            match e {
                Afe::Marker => break,
                Afe::El(_, t) => {
                    let mut a = t.attrs.clone();
                    let mut b = tag.attrs.clone();
                    a.sort();
                    b.sort();
                    if t.name == tag.name && a == b {
                        matches.push(i);
                    }
                },
            }
        }
        if matches.len() >= 3 {
            // remove the earliest such element
            let earliest = *matches.last().unwrap();
            self.afe.remove(earliest);
        }
        self.afe.push(Afe::El(el, tag.clone()));
    }
    fn reconstruct_afe(&mut self) {
        if self.afe.is_empty() {
            return;
        }
        let is_open_or_marker = |s: &RTree, e: &Afe| match e {
            Afe::Marker => true,
            Afe::El(n, _) => s.open.contains(n),
        };
        let last = self.afe.len() - 1;
        if is_open_or_marker(self, &self.afe[last]) {
            return;
        }
        let mut i = last;
        // rewind
        loop {
            if i == 0 {
                break;
            }
            i -= 1;
            if is_open_or_marker(self, &self.afe[i]) {
                i += 1;
                break;
            }
        }
        // advance / create
        loop {
            let tag = match &self.afe[i] {
                Afe::El(_, t) => t.clone(),
                Afe::Marker => unreachable!(),
            };
            let el = self.insert_html(&tag);
            self.afe[i] = Afe::El(el, tag);
            if i == last {
                break;
            }
            i += 1;
        }
    }
    fn clear_afe_to_marker(&mut self) {
        while let Some(e) = self.afe.pop() {
            if matches!(e, Afe::Marker) {
                break;
            }
        }
    }
    fn afe_position(&self, n: usize) -> Option<usize> {
        self.afe.iter().position(|e| matches!(e, Afe::El(x, _) if *x == n))
    }

    /// the adoption agency algorithm
    fn adoption_agency(&mut self, subject: &str) {
        // 2.
        let cur = self.current();
        if self.is_html(cur, subject) && self.afe_position(cur).is_none() {
            self.pop();
            return;
        }
        // 3-4. outer loop
        for _outer in 0..8 {
            // 4.3 formatting element
            let mut fe_idx = None;
            for (i, e) in self.afe.iter().enumerate().rev() {
                match e {
                    Afe::Marker => break,
                    Afe::El(n, _) => {
                        if self.is_html(*n, subject) {
                            fe_idx = Some(i);
                            break;
                        }
                    },
                }
            }
            let Some(fe_idx) = fe_idx else {
                // "any other end tag" steps
                self.any_other_end_tag(subject);
                return;
            };
            let (fe, fe_tag) = match &self.afe[fe_idx] {
                Afe::El(n, t) => (*n, t.clone()),
                _ => unreachable!(),
            };
            // 4.4
            let Some(fe_stack) = self.open.iter().position(|&n| n == fe) else {
                self.afe.remove(fe_idx);
                return;
            };
            // 4.5
            if !self.in_scope_pred(&|n| n == fe, &[]) {
                return;
            }
            // 4.7 furthest block
            let fb_stack = (fe_stack + 1..self.open.len()).find(|&i| self.is_special(self.open[i]));
            let Some(fb_stack) = fb_stack else {
                // 4.8
                self.open.truncate(fe_stack);
                self.afe.remove(fe_idx);
                return;
            };
            let fb = self.open[fb_stack];
            // 4.9
            let common_ancestor = self.open[fe_stack - 1];
            // 4.10 bookmark: position of fe in afe
            let mut bookmark = fe_idx;
            // 4.11
            let mut node_stack = fb_stack;
            let mut last_node = fb;
            let mut inner = 0;
            // 4.13
            loop {
                inner += 1;
                // 4.13.2 node = element immediately above node in the stack
                node_stack -= 1;
                let mut node = self.open[node_stack];
                // 4.13.3
                if node == fe {
                    break;
                }
                // 4.13.4
                let node_afe = self.afe_position(node);
                if inner > 3 {
                    if let Some(p) = node_afe {
                        self.afe.remove(p);
                        if p < bookmark {
                            bookmark -= 1;
                        }
                    }
                }
                // 4.13.5
                let Some(node_afe) = self.afe_position(node) else {
                    self.open.remove(node_stack);
                    continue;
                };
                // 4.13.6 create an element for the token for which node was created
                let tag = match &self.afe[node_afe] {
                    Afe::El(_, t) => t.clone(),
                    _ => unreachable!(),
                };
                let new_el = self.create_element(&tag, HTML_NS);
                self.afe[node_afe] = Afe::El(new_el, tag);
                self.open[node_stack] = new_el;
                node = new_el;
                // 4.13.7
                if last_node == fb {
                    bookmark = node_afe + 1;
                }
                // 4.13.8
                self.dom.detach(last_node);
                self.dom.append(node, Ok(last_node));
                // 4.13.9
                last_node = node;
            }
            // 4.14 insert last node at the appropriate place with common ancestor as override target
            self.dom.detach(last_node);
            let place = self.appropriate_place(Some(common_ancestor));
            self.insert_at(place, Ok(last_node));
            // 4.15
            let new_el = self.create_element(&fe_tag, HTML_NS);
            // 4.16
            self.dom.reparent_children(fb, new_el);
            // 4.17
            self.dom.append(fb, Ok(new_el));
            // 4.18 remove fe from afe, insert new element at bookmark
            let fe_pos = self.afe_position(fe).unwrap();
            self.afe.remove(fe_pos);
            if fe_pos < bookmark {
                bookmark -= 1;
            }
            let bm = bookmark.min(self.afe.len());
            self.afe.insert(bm, Afe::El(new_el, fe_tag));
            // 4.19
            let fe_s = self.open.iter().position(|&n| n == fe).unwrap();
            self.open.remove(fe_s);
            let fb_s = self.open.iter().position(|&n| n == fb).unwrap();
            self.open.insert(fb_s + 1, new_el);
        }
    }

    fn any_other_end_tag(&mut self, name: &str) {
        for i in (0..self.open.len()).rev() {
            let node = self.open[i];
            if self.is_html(node, name) {
                self.generate_implied_end_tags(Some(name));
                self.open.truncate(i);
                return;
            }
            if self.is_special(node) {
                return;
            }
        }
    }

    fn close_p(&mut self) {
        self.generate_implied_end_tags(Some("p"));
        self.pop_until("p");
    }
    fn close_p_if_in_button_scope(&mut self) {
        if self.in_button_scope("p") {
            self.close_p();
        }
    }

    fn reset_insertion_mode(&mut self) {
        for i in (0..self.open.len()).rev() {
            let mut node = self.open[i];
            let last = i == 0;
            if last {
                if let Some(c) = self.context {
                    node = c;
                }
            }
            let name = match self.dom.elem(node) {
                Some((HTML_NS, l)) => l.to_string(),
                _ => String::new(),
            };
            match name.as_str() {
                "td" | "th" if !last => {
                    self.mode = Mode::InCell;
                    return;
                },
                "tr" => {
                    self.mode = Mode::InRow;
                    return;
                },
                "tbody" | "thead" | "tfoot" => {
                    self.mode = Mode::InTableBody;
                    return;
                },
                "caption" => {
                    self.mode = Mode::InCaption;
                    return;
                },
                "colgroup" => {
                    self.mode = Mode::InColumnGroup;
                    return;
                },
                "table" => {
                    self.mode = Mode::InTable;
                    return;
                },
                "template" => {
                    self.mode = *self.template_modes.last().unwrap();
                    return;
                },
                "head" if !last => {
                    self.mode = Mode::InHead;
                    return;
                },
                "body" => {
                    self.mode = Mode::InBody;
                    return;
                },
                "frameset" => {
                    self.mode = Mode::InFrameset;
                    return;
                },
                "html" => {
                    self.mode = if self.head.is_none() { Mode::BeforeHead } else { Mode::AfterHead };
                    return;
                },
                _ => {},
            }
            if last {
                self.mode = Mode::InBody;
                return;
            }
        }
    }

    fn generic_text(&mut self, tag: &TagTok, state: S) {
        self.insert_html(tag);
        self.switch = Some(state);
        self.orig_mode = self.mode;
        self.mode = Mode::Text;
    }

    fn stop(&mut self) {
        self.open.clear();
        self.done = true;
    }

    fn add_missing_attrs(&mut self, n: usize, tag: &TagTok) {
        let add: Vec<MAttr> = tag.attrs.iter().map(|(k, v)| MAttr { ns: String::new(), prefix: None, local: k.clone(), value: v.clone() }).collect();
        self.dom.add_attrs_if_missing(n, add);
    }

    // ------------------------------------------------------------ dispatcher
    fn is_mathml_text_ip(&self, n: usize) -> bool {
        matches!(self.dom.elem(n), Some((MATHML_NS, "mi" | "mo" | "mn" | "ms" | "mtext")))
    }
    fn is_html_ip(&self, n: usize) -> bool {
        match &self.dom.nodes[n].kind {
            Kind::Element { ns, local, mathml_ip, .. } => (ns == MATHML_NS && local == "annotation-xml" && *mathml_ip) || (ns == SVG_NS && matches!(local.as_str(), "foreignObject" | "desc" | "title")),
            _ => false,
        }
    }

    fn dispatch(&mut self, tk: Tk) {
        let html_rules = match self.adjusted_current() {
            None => true,
            Some(acn) => {
                let ns_html = matches!(self.dom.elem(acn), Some((HTML_NS, _)));
                ns_html
                    || (self.is_mathml_text_ip(acn) && matches!(&tk, Tk::Tag(t) if !t.end && t.name != "mglyph" && t.name != "malignmark"))
                    || (self.is_mathml_text_ip(acn) && matches!(tk, Tk::Char(_)))
                    || (matches!(self.dom.elem(acn), Some((MATHML_NS, "annotation-xml"))) && matches!(&tk, Tk::Tag(t) if !t.end && t.name == "svg"))
                    || (self.is_html_ip(acn) && matches!(&tk, Tk::Tag(t) if !t.end))
                    || (self.is_html_ip(acn) && matches!(tk, Tk::Char(_)))
                    || matches!(tk, Tk::Eof)
            },
        };
        if html_rules {
            let m = self.mode;
            self.process(m, tk);
        } else {
            self.foreign(tk);
        }
    }

    fn process(&mut self, mode: Mode, tk: Tk) {
        match mode {
            Mode::Initial => self.m_initial(tk),
            Mode::BeforeHtml => self.m_before_html(tk),
            Mode::BeforeHead => self.m_before_head(tk),
            Mode::InHead => self.m_in_head(tk),
            Mode::InHeadNoscript => self.m_in_head_noscript(tk),
            Mode::AfterHead => self.m_after_head(tk),
            Mode::InBody => self.m_in_body(tk),
            Mode::Text => self.m_text(tk),
            Mode::InTable => self.m_in_table(tk),
            Mode::InTableText => self.m_in_table_text(tk),
            Mode::InCaption => self.m_in_caption(tk),
            Mode::InColumnGroup => self.m_in_column_group(tk),
            Mode::InTableBody => self.m_in_table_body(tk),
            Mode::InRow => self.m_in_row(tk),
            Mode::InCell => self.m_in_cell(tk),
            Mode::InTemplate => self.m_in_template(tk),
            Mode::AfterBody => self.m_after_body(tk),
            Mode::InFrameset => self.m_in_frameset(tk),
            Mode::AfterFrameset => self.m_after_frameset(tk),
            Mode::AfterAfterBody => self.m_after_after_body(tk),
            Mode::AfterAfterFrameset => self.m_after_after_frameset(tk),
        }
    }
    fn reprocess(&mut self, mode: Mode, tk: Tk) {
        self.mode = mode;
        // reprocessing goes through the current insertion mode's HTML rules
        self.process(mode, tk);
    }

    // ------------------------------------------------------------ insertion modes
    fn m_initial(&mut self, tk: Tk) {
        match tk {
            Tk::Char(c) if is_ws(c) => {},
            Tk::Comment(d) => self.insert_comment(&d, Some((0, None))),
            Tk::Doctype { name, public, system, fq } => {
                let dt = self.dom.add(
                    Kind::Doctype { name: name.clone().unwrap_or_default(), public: public.clone().unwrap_or_default(), system: system.clone().unwrap_or_default() },
                    true,
                );
                self.dom.append(0, Ok(dt));
                if !self.srcdoc {
                    let pl = public.as_deref().map(|s| s.to_ascii_lowercase());
                    let sl = system.as_deref().map(|s| s.to_ascii_lowercase());
                    let quirky = fq
                        || name.as_deref() != Some("html")
                        || matches!(pl.as_deref(), Some("-//w3o//dtd w3 html strict 3.0//en//") | Some("-/w3c/dtd html 4.0 transitional/en") | Some("html"))
                        || sl.as_deref() == Some("http://www.ibm.com/data/dtd/v11/ibmxhtml1-transitional.dtd")
                        || pl.as_deref().map(|p| QUIRKY_PUBLIC_PREFIXES.iter().any(|q| p.starts_with(q))).unwrap_or(false)
                        || (system.is_none() && pl.as_deref().map(|p| p.starts_with("-//w3c//dtd html 4.01 frameset//") || p.starts_with("-//w3c//dtd html 4.01 transitional//")).unwrap_or(false));
                    if quirky {
                        self.quirks = 2;
                    } else if pl.as_deref().map(|p| p.starts_with("-//w3c//dtd xhtml 1.0 frameset//") || p.starts_with("-//w3c//dtd xhtml 1.0 transitional//")).unwrap_or(false)
                        || (system.is_some() && pl.as_deref().map(|p| p.starts_with("-//w3c//dtd html 4.01 frameset//") || p.starts_with("-//w3c//dtd html 4.01 transitional//")).unwrap_or(false))
                    {
                        self.quirks = 1;
                    }
                }
                self.mode = Mode::BeforeHtml;
            },
            other => {
                if !self.srcdoc {
                    self.quirks = 2;
                }
                self.reprocess(Mode::BeforeHtml, other);
            },
        }
    }

    fn create_root(&mut self, tag: Option<&TagTok>) {
        let t = tag.cloned().unwrap_or(TagTok { end: false, name: "html".into(), attrs: vec![], self_closing: false, dup: false });
        let el = self.create_element(&t, HTML_NS);
        self.dom.append(0, Ok(el));
        self.open.push(el);
    }

    fn m_before_html(&mut self, tk: Tk) {
        match tk {
            Tk::Doctype { .. } => {},
            Tk::Comment(d) => self.insert_comment(&d, Some((0, None))),
            Tk::Char(c) if is_ws(c) => {},
            Tk::Tag(ref t) if !t.end && t.name == "html" => {
                self.create_root(Some(t));
                self.mode = Mode::BeforeHead;
            },
            Tk::Tag(ref t) if t.end && !matches!(t.name.as_str(), "head" | "body" | "html" | "br") => {},
            other => {
                self.create_root(None);
                self.reprocess(Mode::BeforeHead, other);
            },
        }
    }

    fn m_before_head(&mut self, tk: Tk) {
        match tk {
            Tk::Char(c) if is_ws(c) => {},
            Tk::Comment(d) => self.insert_comment(&d, None),
            Tk::Doctype { .. } => {},
            Tk::Tag(ref t) if !t.end && t.name == "html" => self.m_in_body(tk),
            Tk::Tag(ref t) if !t.end && t.name == "head" => {
                let h = self.insert_html(t);
                self.head = Some(h);
                self.mode = Mode::InHead;
            },
            Tk::Tag(ref t) if t.end && !matches!(t.name.as_str(), "head" | "body" | "html" | "br") => {},
            other => {
                let h = self.insert_phantom("head");
                self.head = Some(h);
                self.reprocess(Mode::InHead, other);
            },
        }
    }

    fn m_in_head(&mut self, tk: Tk) {
        match tk {
            Tk::Char(c) if is_ws(c) => self.insert_char(c),
            Tk::Comment(d) => self.insert_comment(&d, None),
            Tk::Doctype { .. } => {},
            Tk::Tag(ref t) if !t.end && t.name == "html" => self.m_in_body(tk),
            Tk::Tag(ref t) if !t.end && matches!(t.name.as_str(), "base" | "basefont" | "bgsound" | "link" | "meta") => {
                self.insert_html(t);
                self.pop();
            },
            Tk::Tag(ref t) if !t.end && t.name == "title" => self.generic_text(t, S::Rcdata),
            Tk::Tag(ref t) if !t.end && ((t.name == "noscript" && self.scripting) || matches!(t.name.as_str(), "noframes" | "style")) => {
                self.generic_text(t, S::Rawtext)
            },
            Tk::Tag(ref t) if !t.end && t.name == "noscript" => {
                self.insert_html(t);
                self.mode = Mode::InHeadNoscript;
            },
            Tk::Tag(ref t) if !t.end && t.name == "script" => {
                let place = self.appropriate_place(None);
                let el = self.create_element(t, HTML_NS);
                self.insert_at(place, Ok(el));
                self.open.push(el);
                self.switch = Some(S::ScriptData);
                self.orig_mode = self.mode;
                self.mode = Mode::Text;
            },
            Tk::Tag(ref t) if t.end && t.name == "head" => {
                self.pop();
                self.mode = Mode::AfterHead;
            },
            Tk::Tag(ref t) if !t.end && t.name == "template" => {
                self.afe.push(Afe::Marker);
                self.frameset_ok = false;
                self.mode = Mode::InTemplate;
                self.template_modes.push(Mode::InTemplate);
                // declarative shadow roots: the sink declines to attach one, so the
                // template is inserted as an ordinary element
                self.insert_html(t);
            },
            Tk::Tag(ref t) if t.end && t.name == "template" => {
                if self.stack_has("template") {
                    self.generate_all_implied_end_tags_thoroughly();
                    self.pop_until("template");
                    self.clear_afe_to_marker();
                    self.template_modes.pop();
                    self.reset_insertion_mode();
                }
            },
            Tk::Tag(ref t) if (!t.end && t.name == "head") || (t.end && !matches!(t.name.as_str(), "body" | "html" | "br")) => {},
            other => {
                self.pop();
                self.reprocess(Mode::AfterHead, other);
            },
        }
    }

    fn m_in_head_noscript(&mut self, tk: Tk) {
        match tk {
            Tk::Doctype { .. } => {},
            Tk::Tag(ref t) if !t.end && t.name == "html" => self.m_in_body(tk),
            Tk::Tag(ref t) if t.end && t.name == "noscript" => {
                self.pop();
                self.mode = Mode::InHead;
            },
            Tk::Char(c) if is_ws(c) => self.m_in_head(tk),
            Tk::Comment(_) => self.m_in_head(tk),
            Tk::Tag(ref t) if !t.end && matches!(t.name.as_str(), "basefont" | "bgsound" | "link" | "meta" | "noframes" | "style") => self.m_in_head(tk),
            Tk::Tag(ref t) if (!t.end && matches!(t.name.as_str(), "head" | "noscript")) || (t.end && t.name != "br") => {},
            other => {
                self.pop();
                self.reprocess(Mode::InHead, other);
            },
        }
    }

    fn m_after_head(&mut self, tk: Tk) {
        match tk {
            Tk::Char(c) if is_ws(c) => self.insert_char(c),
            Tk::Comment(d) => self.insert_comment(&d, None),
            Tk::Doctype { .. } => {},
            Tk::Tag(ref t) if !t.end && t.name == "html" => self.m_in_body(tk),
            Tk::Tag(ref t) if !t.end && t.name == "body" => {
                self.insert_html(t);
                self.frameset_ok = false;
                self.mode = Mode::InBody;
            },
            Tk::Tag(ref t) if !t.end && t.name == "frameset" => {
                self.insert_html(t);
                self.mode = Mode::InFrameset;
            },
            Tk::Tag(ref t)
                if !t.end && matches!(t.name.as_str(), "base" | "basefont" | "bgsound" | "link" | "meta" | "noframes" | "script" | "style" | "template" | "title") =>
            {
                let head = self.head.expect("head element pointer");
                self.open.push(head);
                self.m_in_head(tk);
                if let Some(p) = self.open.iter().position(|&n| n == head) {
                    self.open.remove(p);
                }
            },
            Tk::Tag(ref t) if t.end && t.name == "template" => self.m_in_head(tk),
            Tk::Tag(ref t) if (!t.end && t.name == "head") || (t.end && !matches!(t.name.as_str(), "body" | "html" | "br")) => {},
            other => {
                self.insert_phantom("body");
                self.reprocess(Mode::InBody, other);
            },
        }
    }

    fn m_in_body(&mut self, tk: Tk) {
        match tk {
            Tk::Char('\0') => {},
            Tk::Char(c) => {
                self.reconstruct_afe();
                self.insert_char(c);
                if !is_ws(c) {
                    self.frameset_ok = false;
                }
            },
            Tk::Comment(d) => self.insert_comment(&d, None),
            Tk::Doctype { .. } => {},
            Tk::Eof => {
                if !self.template_modes.is_empty() {
                    self.m_in_template(Tk::Eof);
                } else {
                    self.stop();
                }
            },
            Tk::Tag(t) if !t.end => self.in_body_start(t),
            Tk::Tag(t) => self.in_body_end(t),
        }
    }

    fn in_body_start(&mut self, t: TagTok) {
        let name = t.name.clone();
        match name.as_str() {
            "html" => {
                if !self.stack_has("template") {
                    let top = self.open[0];
                    self.add_missing_attrs(top, &t);
                }
            },
            "base" | "basefont" | "bgsound" | "link" | "meta" | "noframes" | "script" | "style" | "template" | "title" => self.m_in_head(Tk::Tag(t)),
            "body" => {
                if self.open.len() == 1 || !self.is_html(self.open[1], "body") || self.stack_has("template") {
                    return;
                }
                self.frameset_ok = false;
                let body = self.open[1];
                self.add_missing_attrs(body, &t);
            },
            "frameset" => {
                if self.open.len() == 1 || !self.is_html(self.open[1], "body") {
                    return;
                }
                if !self.frameset_ok {
                    return;
                }
                let body = self.open[1];
                self.dom.detach(body);
                self.open.truncate(1);
                self.insert_html(&t);
                self.mode = Mode::InFrameset;
            },
            "address" | "article" | "aside" | "blockquote" | "center" | "details" | "dialog" | "dir" | "div" | "dl" | "fieldset" | "figcaption"
            | "figure" | "footer" | "header" | "hgroup" | "main" | "menu" | "nav" | "ol" | "p" | "search" | "section" | "summary" | "ul" => {
                self.close_p_if_in_button_scope();
                self.insert_html(&t);
            },
            "h1" | "h2" | "h3" | "h4" | "h5" | "h6" => {
                self.close_p_if_in_button_scope();
                if self.html_in(self.current(), HEADINGS) {
                    self.pop();
                }
                self.insert_html(&t);
            },
            "pre" | "listing" => {
                self.close_p_if_in_button_scope();
                self.insert_html(&t);
                self.skip_lf = true;
                self.frameset_ok = false;
            },
            "form" => {
                if self.form.is_some() && !self.stack_has("template") {
                    return;
                }
                self.close_p_if_in_button_scope();
                let f = self.insert_html(&t);
                if !self.stack_has("template") {
                    self.form = Some(f);
                }
            },
            "li" => {
                self.frameset_ok = false;
                for i in (0..self.open.len()).rev() {
                    let node = self.open[i];
                    if self.is_html(node, "li") {
                        self.generate_implied_end_tags(Some("li"));
                        self.pop_until("li");
                        break;
                    }
                    if self.is_special(node) && !self.html_in(node, &["address", "div", "p"]) {
                        break;
                    }
                }
                self.close_p_if_in_button_scope();
                self.insert_html(&t);
            },
            "dd" | "dt" => {
                self.frameset_ok = false;
                for i in (0..self.open.len()).rev() {
                    let node = self.open[i];
                    if self.is_html(node, "dd") {
                        self.generate_implied_end_tags(Some("dd"));
                        self.pop_until("dd");
                        break;
                    }
                    if self.is_html(node, "dt") {
                        self.generate_implied_end_tags(Some("dt"));
                        self.pop_until("dt");
                        break;
                    }
                    if self.is_special(node) && !self.html_in(node, &["address", "div", "p"]) {
                        break;
                    }
                }
                self.close_p_if_in_button_scope();
                self.insert_html(&t);
            },
            "plaintext" => {
                self.close_p_if_in_button_scope();
                self.insert_html(&t);
                self.switch = Some(S::Plaintext);
            },
            "button" => {
                if self.in_scope("button") {
                    self.generate_implied_end_tags(None);
                    self.pop_until("button");
                }
                self.reconstruct_afe();
                self.insert_html(&t);
                self.frameset_ok = false;
            },
            "a" => {
                // an a element in the list of active formatting elements after the last marker
                let mut found = None;
                for e in self.afe.iter().rev() {
                    match e {
                        Afe::Marker => break,
                        Afe::El(n, _) => {
                            if self.is_html(*n, "a") {
                                found = Some(*n);
                                break;
                            }
                        },
                    }
                }
                if let Some(a) = found {
                    self.adoption_agency("a");
                    if let Some(p) = self.afe_position(a) {
                        self.afe.remove(p);
                    }
                    if let Some(p) = self.open.iter().position(|&n| n == a) {
                        self.open.remove(p);
                    }
                }
                self.reconstruct_afe();
                let el = self.insert_html(&t);
                self.push_afe(el, &t);
            },
            "b" | "big" | "code" | "em" | "font" | "i" | "s" | "small" | "strike" | "strong" | "tt" | "u" => {
                self.reconstruct_afe();
                let el = self.insert_html(&t);
                self.push_afe(el, &t);
            },
            "nobr" => {
                self.reconstruct_afe();
                if self.in_scope("nobr") {
                    self.adoption_agency("nobr");
                    self.reconstruct_afe();
                }
                let el = self.insert_html(&t);
                self.push_afe(el, &t);
            },
            "applet" | "marquee" | "object" => {
                self.reconstruct_afe();
                self.insert_html(&t);
                self.afe.push(Afe::Marker);
                self.frameset_ok = false;
            },
            "table" => {
                if self.quirks != 2 {
                    self.close_p_if_in_button_scope();
                }
                self.insert_html(&t);
                self.frameset_ok = false;
                self.mode = Mode::InTable;
            },
            "area" | "br" | "embed" | "img" | "keygen" | "wbr" => {
                self.reconstruct_afe();
                self.insert_html(&t);
                self.pop();
                self.frameset_ok = false;
            },
            "input" => {
                self.reconstruct_afe();
                self.insert_html(&t);
                self.pop();
                let hidden = t.attrs.iter().any(|(k, v)| k == "type" && v.eq_ignore_ascii_case("hidden"));
                if !hidden {
                    self.frameset_ok = false;
                }
            },
            "param" | "source" | "track" => {
                self.insert_html(&t);
                self.pop();
            },
            "hr" => {
                self.close_p_if_in_button_scope();
                self.insert_html(&t);
                self.pop();
                self.frameset_ok = false;
            },
            "image" => {
                let mut t2 = t.clone();
                t2.name = "img".into();
                self.in_body_start(t2);
            },
            "textarea" => {
                self.insert_html(&t);
                self.skip_lf = true;
                self.switch = Some(S::Rcdata);
                self.orig_mode = self.mode;
                self.frameset_ok = false;
                self.mode = Mode::Text;
            },
            "xmp" => {
                self.close_p_if_in_button_scope();
                self.reconstruct_afe();
                self.frameset_ok = false;
                self.generic_text(&t, S::Rawtext);
            },
            "iframe" => {
                self.frameset_ok = false;
                self.generic_text(&t, S::Rawtext);
            },
            "noembed" => self.generic_text(&t, S::Rawtext),
            "noscript" if self.scripting => self.generic_text(&t, S::Rawtext),
            "optgroup" | "option" => {
                if self.is_html(self.current(), "option") {
                    self.pop();
                }
                self.reconstruct_afe();
                self.insert_html(&t);
            },
            "rb" | "rtc" => {
                if self.in_scope("ruby") {
                    self.generate_implied_end_tags(None);
                }
                self.insert_html(&t);
            },
            "rp" | "rt" => {
                if self.in_scope("ruby") {
                    self.generate_implied_end_tags(Some("rtc"));
                }
                self.insert_html(&t);
            },
            "math" | "svg" => {
                self.reconstruct_afe();
                let ns = if name == "math" { MATHML_NS } else { SVG_NS };
                let mut t2 = t.clone();
                self.adjust_foreign(&mut t2, ns);
                let el = self.insert_foreign(&t2, ns);
                let _ = el;
                if t.self_closing {
                    self.pop();
                }
            },
            "caption" | "col" | "colgroup" | "frame" | "head" | "tbody" | "td" | "tfoot" | "th" | "thead" | "tr" => {},
            _ => {
                self.reconstruct_afe();
                self.insert_html(&t);
            },
        }
    }

    fn in_body_end(&mut self, t: TagTok) {
        let name = t.name.clone();
        match name.as_str() {
            "template" => self.m_in_head(Tk::Tag(t)),
            "body" => {
                if !self.in_scope("body") {
                    return;
                }
                self.mode = Mode::AfterBody;
            },
            "html" => {
                if !self.in_scope("body") {
                    return;
                }
                self.mode = Mode::AfterBody;
                self.m_after_body(Tk::Tag(t));
            },
            "address" | "article" | "aside" | "blockquote" | "button" | "center" | "details" | "dialog" | "dir" | "div" | "dl" | "fieldset"
            | "figcaption" | "figure" | "footer" | "header" | "hgroup" | "listing" | "main" | "menu" | "nav" | "ol" | "pre" | "search" | "section"
            | "select" | "summary" | "ul" => {
                if !self.in_scope(&name) {
                    return;
                }
                self.generate_implied_end_tags(None);
                self.pop_until(&name);
            },
            "form" => {
                if !self.stack_has("template") {
                    let node = self.form.take();
                    let Some(node) = node else { return };
                    if !self.in_scope_pred(&|n| n == node, &[]) {
                        return;
                    }
                    self.generate_implied_end_tags(None);
                    if let Some(p) = self.open.iter().position(|&n| n == node) {
                        self.open.remove(p);
                    }
                } else {
                    if !self.in_scope("form") {
                        return;
                    }
                    self.generate_implied_end_tags(None);
                    self.pop_until("form");
                }
            },
            "p" => {
                if !self.in_button_scope("p") {
                    self.insert_phantom("p");
                }
                self.close_p();
            },
            "li" => {
                if !self.in_list_item_scope("li") {
                    return;
                }
                self.generate_implied_end_tags(Some("li"));
                self.pop_until("li");
            },
            "dd" | "dt" => {
                if !self.in_scope(&name) {
                    return;
                }
                self.generate_implied_end_tags(Some(&name));
                self.pop_until(&name);
            },
            "h1" | "h2" | "h3" | "h4" | "h5" | "h6" => {
                if !self.in_scope_pred(&|n| self.html_in(n, HEADINGS), &[]) {
                    return;
                }
                self.generate_implied_end_tags(None);
                self.pop_until_any(HEADINGS);
            },
            n if FORMATTING.contains(&n) => self.adoption_agency(&name),
            "applet" | "marquee" | "object" => {
                if !self.in_scope(&name) {
                    return;
                }
                self.generate_implied_end_tags(None);
                self.pop_until(&name);
                self.clear_afe_to_marker();
            },
            "br" => {
                let t2 = TagTok { end: false, name: "br".into(), attrs: vec![], self_closing: false, dup: false };
                self.in_body_start(t2);
            },
            _ => self.any_other_end_tag(&name),
        }
    }

    fn m_text(&mut self, tk: Tk) {
        match tk {
            Tk::Char(c) => self.insert_char(c),
            Tk::Eof => {
                self.pop();
                let m = self.orig_mode;
                self.reprocess(m, Tk::Eof);
            },
            Tk::Tag(t) if t.end => {
                self.pop();
                self.mode = self.orig_mode;
            },
            _ => {},
        }
    }

    fn clear_stack_to(&mut self, names: &[&str]) {
        while let Some(&n) = self.open.last() {
            if self.html_in(n, names) {
                break;
            }
            self.open.pop();
        }
    }

    fn m_in_table(&mut self, tk: Tk) {
        match tk {
            Tk::Char(_) if self.html_in(self.current(), &["table", "tbody", "template", "tfoot", "thead", "tr"]) => {
                self.pending_table_chars.clear();
                self.orig_mode = self.mode;
                self.mode = Mode::InTableText;
                self.m_in_table_text(tk);
            },
            Tk::Comment(d) => self.insert_comment(&d, None),
            Tk::Doctype { .. } => {},
            Tk::Tag(ref t) if !t.end && t.name == "caption" => {
                self.clear_stack_to(&["table", "template", "html"]);
                self.afe.push(Afe::Marker);
                self.insert_html(t);
                self.mode = Mode::InCaption;
            },
            Tk::Tag(ref t) if !t.end && t.name == "colgroup" => {
                self.clear_stack_to(&["table", "template", "html"]);
                self.insert_html(t);
                self.mode = Mode::InColumnGroup;
            },
            Tk::Tag(ref t) if !t.end && t.name == "col" => {
                self.clear_stack_to(&["table", "template", "html"]);
                self.insert_phantom("colgroup");
                self.reprocess(Mode::InColumnGroup, tk);
            },
            Tk::Tag(ref t) if !t.end && matches!(t.name.as_str(), "tbody" | "tfoot" | "thead") => {
                self.clear_stack_to(&["table", "template", "html"]);
                self.insert_html(t);
                self.mode = Mode::InTableBody;
            },
            Tk::Tag(ref t) if !t.end && matches!(t.name.as_str(), "td" | "th" | "tr") => {
                self.clear_stack_to(&["table", "template", "html"]);
                self.insert_phantom("tbody");
                self.reprocess(Mode::InTableBody, tk);
            },
            Tk::Tag(ref t) if !t.end && t.name == "table" => {
                if !self.in_table_scope("table") {
                    return;
                }
                self.pop_until("table");
                self.reset_insertion_mode();
                let m = self.mode;
                self.reprocess(m, tk);
            },
            Tk::Tag(ref t) if t.end && t.name == "table" => {
                if !self.in_table_scope("table") {
                    return;
                }
                self.pop_until("table");
                self.reset_insertion_mode();
            },
            Tk::Tag(ref t) if t.end && matches!(t.name.as_str(), "body" | "caption" | "col" | "colgroup" | "html" | "tbody" | "td" | "tfoot" | "th" | "thead" | "tr") => {},
            Tk::Tag(ref t) if (!t.end && matches!(t.name.as_str(), "style" | "script" | "template")) || (t.end && t.name == "template") => self.m_in_head(tk),
            Tk::Tag(ref t) if !t.end && t.name == "input" && t.attrs.iter().any(|(k, v)| k == "type" && v.eq_ignore_ascii_case("hidden")) => {
                self.insert_html(t);
                self.pop();
            },
            Tk::Tag(ref t) if !t.end && t.name == "form" => {
                if self.stack_has("template") || self.form.is_some() {
                    return;
                }
                let f = self.insert_html(t);
                self.form = Some(f);
                self.pop();
            },
            Tk::Eof => self.m_in_body(tk),
            other => {
                self.foster = true;
                self.m_in_body(other);
                self.foster = false;
            },
        }
    }

    fn m_in_table_text(&mut self, tk: Tk) {
        match tk {
            Tk::Char('\0') => {},
            Tk::Char(c) => self.pending_table_chars.push(c),
            other => {
                let chars = std::mem::take(&mut self.pending_table_chars);
                if chars.iter().any(|c| !is_ws(*c)) {
                    for c in chars {
                        self.foster = true;
                        self.m_in_body(Tk::Char(c));
                        self.foster = false;
                    }
                } else {
                    for c in chars {
                        self.insert_char(c);
                    }
                }
                let m = self.orig_mode;
                self.reprocess(m, other);
            },
        }
    }

    fn m_in_caption(&mut self, tk: Tk) {
        match tk {
            Tk::Tag(ref t) if t.end && t.name == "caption" => {
                if !self.in_table_scope("caption") {
                    return;
                }
                self.generate_implied_end_tags(None);
                self.pop_until("caption");
                self.clear_afe_to_marker();
                self.mode = Mode::InTable;
            },
            Tk::Tag(ref t)
                if (!t.end && matches!(t.name.as_str(), "caption" | "col" | "colgroup" | "tbody" | "td" | "tfoot" | "th" | "thead" | "tr")) || (t.end && t.name == "table") =>
            {
                if !self.in_table_scope("caption") {
                    return;
                }
                self.generate_implied_end_tags(None);
                self.pop_until("caption");
                self.clear_afe_to_marker();
                self.reprocess(Mode::InTable, tk);
            },
            Tk::Tag(ref t) if t.end && matches!(t.name.as_str(), "body" | "col" | "colgroup" | "html" | "tbody" | "td" | "tfoot" | "th" | "thead" | "tr") => {},
            other => self.m_in_body(other),
        }
    }

    fn m_in_column_group(&mut self, tk: Tk) {
        match tk {
            Tk::Char(c) if is_ws(c) => self.insert_char(c),
            Tk::Comment(d) => self.insert_comment(&d, None),
            Tk::Doctype { .. } => {},
            Tk::Tag(ref t) if !t.end && t.name == "html" => self.m_in_body(tk),
            Tk::Tag(ref t) if !t.end && t.name == "col" => {
                self.insert_html(t);
                self.pop();
            },
            Tk::Tag(ref t) if t.end && t.name == "colgroup" => {
                if !self.is_html(self.current(), "colgroup") {
                    return;
                }
                self.pop();
                self.mode = Mode::InTable;
            },
            Tk::Tag(ref t) if t.end && t.name == "col" => {},
            Tk::Tag(ref t) if t.name == "template" => self.m_in_head(tk),
            Tk::Eof => self.m_in_body(tk),
            other => {
                if !self.is_html(self.current(), "colgroup") {
                    return;
                }
                self.pop();
                self.reprocess(Mode::InTable, other);
            },
        }
    }

    fn m_in_table_body(&mut self, tk: Tk) {
        match tk {
            Tk::Tag(ref t) if !t.end && t.name == "tr" => {
                self.clear_stack_to(&["tbody", "tfoot", "thead", "template", "html"]);
                self.insert_html(t);
                self.mode = Mode::InRow;
            },
            Tk::Tag(ref t) if !t.end && matches!(t.name.as_str(), "th" | "td") => {
                self.clear_stack_to(&["tbody", "tfoot", "thead", "template", "html"]);
                self.insert_phantom("tr");
                self.reprocess(Mode::InRow, tk);
            },
            Tk::Tag(ref t) if t.end && matches!(t.name.as_str(), "tbody" | "tfoot" | "thead") => {
                if !self.in_table_scope(&t.name) {
                    return;
                }
                self.clear_stack_to(&["tbody", "tfoot", "thead", "template", "html"]);
                self.pop();
                self.mode = Mode::InTable;
            },
            Tk::Tag(ref t) if (!t.end && matches!(t.name.as_str(), "caption" | "col" | "colgroup" | "tbody" | "tfoot" | "thead")) || (t.end && t.name == "table") => {
                if !(self.in_table_scope("tbody") || self.in_table_scope("thead") || self.in_table_scope("tfoot")) {
                    return;
                }
                self.clear_stack_to(&["tbody", "tfoot", "thead", "template", "html"]);
                self.pop();
                self.reprocess(Mode::InTable, tk);
            },
            Tk::Tag(ref t) if t.end && matches!(t.name.as_str(), "body" | "caption" | "col" | "colgroup" | "html" | "td" | "th" | "tr") => {},
            other => self.m_in_table(other),
        }
    }

    fn m_in_row(&mut self, tk: Tk) {
        match tk {
            Tk::Tag(ref t) if !t.end && matches!(t.name.as_str(), "th" | "td") => {
                self.clear_stack_to(&["tr", "template", "html"]);
                self.insert_html(t);
                self.mode = Mode::InCell;
                self.afe.push(Afe::Marker);
            },
            Tk::Tag(ref t) if t.end && t.name == "tr" => {
                if !self.in_table_scope("tr") {
                    return;
                }
                self.clear_stack_to(&["tr", "template", "html"]);
                self.pop();
                self.mode = Mode::InTableBody;
            },
            Tk::Tag(ref t) if (!t.end && matches!(t.name.as_str(), "caption" | "col" | "colgroup" | "tbody" | "tfoot" | "thead" | "tr")) || (t.end && t.name == "table") => {
                if !self.in_table_scope("tr") {
                    return;
                }
                self.clear_stack_to(&["tr", "template", "html"]);
                self.pop();
                self.reprocess(Mode::InTableBody, tk);
            },
            Tk::Tag(ref t) if t.end && matches!(t.name.as_str(), "tbody" | "tfoot" | "thead") => {
                if !self.in_table_scope(&t.name) {
                    return;
                }
                if !self.in_table_scope("tr") {
                    return;
                }
                self.clear_stack_to(&["tr", "template", "html"]);
                self.pop();
                self.reprocess(Mode::InTableBody, tk);
            },
            Tk::Tag(ref t) if t.end && matches!(t.name.as_str(), "body" | "caption" | "col" | "colgroup" | "html" | "td" | "th") => {},
            other => self.m_in_table(other),
        }
    }

    fn close_cell(&mut self) {
        self.generate_implied_end_tags(None);
        self.pop_until_any(&["td", "th"]);
        self.clear_afe_to_marker();
        self.mode = Mode::InRow;
    }

    fn m_in_cell(&mut self, tk: Tk) {
        match tk {
            Tk::Tag(ref t) if t.end && matches!(t.name.as_str(), "td" | "th") => {
                if !self.in_table_scope(&t.name) {
                    return;
                }
                self.generate_implied_end_tags(None);
                self.pop_until(&t.name);
                self.clear_afe_to_marker();
                self.mode = Mode::InRow;
            },
            Tk::Tag(ref t) if !t.end && matches!(t.name.as_str(), "caption" | "col" | "colgroup" | "tbody" | "td" | "tfoot" | "th" | "thead" | "tr") => {
                if !(self.in_table_scope("td") || self.in_table_scope("th")) {
                    return;
                }
                self.close_cell();
                self.reprocess(Mode::InRow, tk);
            },
            Tk::Tag(ref t) if t.end && matches!(t.name.as_str(), "body" | "caption" | "col" | "colgroup" | "html") => {},
            Tk::Tag(ref t) if t.end && matches!(t.name.as_str(), "table" | "tbody" | "tfoot" | "thead" | "tr") => {
                if !self.in_table_scope(&t.name) {
                    return;
                }
                self.close_cell();
                self.reprocess(Mode::InRow, tk);
            },
            other => self.m_in_body(other),
        }
    }

    fn m_in_template(&mut self, tk: Tk) {
        match tk {
            Tk::Char(_) | Tk::Comment(_) | Tk::Doctype { .. } => self.m_in_body(tk),
            Tk::Tag(ref t)
                if (!t.end && matches!(t.name.as_str(), "base" | "basefont" | "bgsound" | "link" | "meta" | "noframes" | "script" | "style" | "template" | "title"))
                    || (t.end && t.name == "template") =>
            {
                self.m_in_head(tk)
            },
            Tk::Tag(ref t) if !t.end && matches!(t.name.as_str(), "caption" | "colgroup" | "tbody" | "tfoot" | "thead") => {
                self.template_modes.pop();
                self.template_modes.push(Mode::InTable);
                self.reprocess(Mode::InTable, tk);
            },
            Tk::Tag(ref t) if !t.end && t.name == "col" => {
                self.template_modes.pop();
                self.template_modes.push(Mode::InColumnGroup);
                self.reprocess(Mode::InColumnGroup, tk);
            },
            Tk::Tag(ref t) if !t.end && t.name == "tr" => {
                self.template_modes.pop();
                self.template_modes.push(Mode::InTableBody);
                self.reprocess(Mode::InTableBody, tk);
            },
            Tk::Tag(ref t) if !t.end && matches!(t.name.as_str(), "td" | "th") => {
                self.template_modes.pop();
                self.template_modes.push(Mode::InRow);
                self.reprocess(Mode::InRow, tk);
            },
            Tk::Tag(ref t) if !t.end => {
                self.template_modes.pop();
                self.template_modes.push(Mode::InBody);
                self.reprocess(Mode::InBody, tk);
            },
            Tk::Tag(_) => {},
            Tk::Eof => {
                if !self.stack_has("template") {
                    self.stop();
                    return;
                }
                self.pop_until("template");
                self.clear_afe_to_marker();
                self.template_modes.pop();
                self.reset_insertion_mode();
                let m = self.mode;
                self.reprocess(m, Tk::Eof);
            },
        }
    }

    fn m_after_body(&mut self, tk: Tk) {
        match tk {
            Tk::Char(c) if is_ws(c) => self.m_in_body(tk),
            Tk::Comment(d) => {
                let html = self.open[0];
                self.insert_comment(&d, Some((html, None)));
            },
            Tk::Doctype { .. } => {},
            Tk::Tag(ref t) if !t.end && t.name == "html" => self.m_in_body(tk),
            Tk::Tag(ref t) if t.end && t.name == "html" => {
                if self.context.is_none() {
                    self.mode = Mode::AfterAfterBody;
                }
            },
            Tk::Eof => self.stop(),
            other => self.reprocess(Mode::InBody, other),
        }
    }

    fn m_in_frameset(&mut self, tk: Tk) {
        match tk {
            Tk::Char(c) if is_ws(c) => self.insert_char(c),
            Tk::Comment(d) => self.insert_comment(&d, None),
            Tk::Doctype { .. } => {},
            Tk::Tag(ref t) if !t.end && t.name == "html" => self.m_in_body(tk),
            Tk::Tag(ref t) if !t.end && t.name == "frameset" => {
                self.insert_html(t);
            },
            Tk::Tag(ref t) if t.end && t.name == "frameset" => {
                if self.open.len() == 1 {
                    return;
                }
                self.pop();
                if self.context.is_none() && !self.is_html(self.current(), "frameset") {
                    self.mode = Mode::AfterFrameset;
                }
            },
            Tk::Tag(ref t) if !t.end && t.name == "frame" => {
                self.insert_html(t);
                self.pop();
            },
            Tk::Tag(ref t) if !t.end && t.name == "noframes" => self.m_in_head(tk),
            Tk::Eof => self.stop(),
            _ => {},
        }
    }

    fn m_after_frameset(&mut self, tk: Tk) {
        match tk {
            Tk::Char(c) if is_ws(c) => self.insert_char(c),
            Tk::Comment(d) => self.insert_comment(&d, None),
            Tk::Doctype { .. } => {},
            Tk::Tag(ref t) if !t.end && t.name == "html" => self.m_in_body(tk),
            Tk::Tag(ref t) if t.end && t.name == "html" => self.mode = Mode::AfterAfterFrameset,
            Tk::Tag(ref t) if !t.end && t.name == "noframes" => self.m_in_head(tk),
            Tk::Eof => self.stop(),
            _ => {},
        }
    }

    fn m_after_after_body(&mut self, tk: Tk) {
        match tk {
            Tk::Comment(d) => self.insert_comment(&d, Some((0, None))),
            Tk::Doctype { .. } => self.m_in_body(tk),
            Tk::Char(c) if is_ws(c) => self.m_in_body(tk),
            Tk::Tag(ref t) if !t.end && t.name == "html" => self.m_in_body(tk),
            Tk::Eof => self.stop(),
            other => self.reprocess(Mode::InBody, other),
        }
    }

    fn m_after_after_frameset(&mut self, tk: Tk) {
        match tk {
            Tk::Comment(d) => self.insert_comment(&d, Some((0, None))),
            Tk::Doctype { .. } => self.m_in_body(tk),
            Tk::Char(c) if is_ws(c) => self.m_in_body(tk),
            Tk::Tag(ref t) if !t.end && t.name == "html" => self.m_in_body(tk),
            Tk::Eof => self.stop(),
            Tk::Tag(ref t) if !t.end && t.name == "noframes" => self.m_in_head(tk),
            _ => {},
        }
    }

    // ------------------------------------------------------------ foreign content
    fn adjust_foreign(&self, t: &mut TagTok, ns: &str) {
        // adjust MathML / SVG attributes (names only; namespaces are applied in insert_foreign)
        for (k, _) in t.attrs.iter_mut() {
            if ns == MATHML_NS && k == "definitionurl" {
                *k = "definitionURL".into();
            }
            if ns == SVG_NS {
                if let Some((_, fixed)) = SVG_ATTR_FIXUPS.iter().find(|(a, _)| a == k) {
                    *k = fixed.to_string();
                }
            }
        }
    }
    fn insert_foreign(&mut self, t: &TagTok, ns: &str) -> usize {
        let place = self.appropriate_place(None);
        let el = self.create_element(t, ns);
        // adjust foreign attributes
        if let Kind::Element { attrs, .. } = &mut self.dom.nodes[el].kind {
            for a in attrs.iter_mut() {
                let (p, l, n): (Option<&str>, String, &str) = match a.local.as_str() {
                    "xlink:actuate" | "xlink:arcrole" | "xlink:href" | "xlink:role" | "xlink:show" | "xlink:title" | "xlink:type" => (Some("xlink"), a.local[6..].to_string(), XLINK_NS),
                    "xml:lang" | "xml:space" => (Some("xml"), a.local[4..].to_string(), XML_NS),
                    "xmlns" => (None, "xmlns".to_string(), XMLNS_NS),
                    "xmlns:xlink" => (Some("xmlns"), "xlink".to_string(), XMLNS_NS),
                    _ => continue,
                };
                a.prefix = p.map(|s| s.to_string());
                a.local = l;
                a.ns = n.to_string();
            }
        }
        self.insert_at(place, Ok(el));
        self.open.push(el);
        el
    }

    fn foreign(&mut self, tk: Tk) {
        match tk {
            Tk::Char('\0') => self.insert_char('\u{fffd}'),
            Tk::Char(c) => {
                self.insert_char(c);
                if !is_ws(c) {
                    self.frameset_ok = false;
                }
            },
            Tk::Comment(d) => self.insert_comment(&d, None),
            Tk::Doctype { .. } => {},
            Tk::Tag(ref t)
                if (!t.end && BREAKOUT.contains(&t.name.as_str()))
                    || (!t.end && t.name == "font" && t.attrs.iter().any(|(k, _)| matches!(k.as_str(), "color" | "face" | "size")))
                    || (t.end && matches!(t.name.as_str(), "br" | "p")) =>
            {
                // pop until a MathML text integration point, an HTML integration point or an HTML element
                loop {
                    let c = self.current();
                    if self.is_mathml_text_ip(c) || self.is_html_ip(c) || matches!(self.dom.elem(c), Some((HTML_NS, _))) {
                        break;
                    }
                    self.pop();
                }
                let m = self.mode;
                self.process(m, tk);
            },
            Tk::Tag(t) if !t.end => {
                let acn = self.adjusted_current().unwrap();
                let ns = self.dom.elem(acn).unwrap().0.to_string();
                let mut t2 = t.clone();
                if ns == SVG_NS {
                    if let Some((_, fixed)) = SVG_TAG_FIXUPS.iter().find(|(a, _)| *a == t2.name) {
                        t2.name = fixed.to_string();
                    }
                }
                self.adjust_foreign(&mut t2, &ns);
                self.insert_foreign(&t2, &ns);
                if t.self_closing {
                    // (script in SVG would be executed here; scripts never run)
                    self.pop();
                }
            },
            Tk::Tag(t) => {
                // any other end tag
                let mut i = self.open.len() - 1;
                loop {
                    let node = self.open[i];
                    if i == 0 {
                        return;
                    }
                    let (ns, local) = {
                        let e = self.dom.elem(node).unwrap();
                        (e.0.to_string(), e.1.to_string())
                    };
                    if i != self.open.len() - 1 && ns == HTML_NS {
                        let m = self.mode;
                        self.process(m, Tk::Tag(t));
                        return;
                    }
                    if local.to_ascii_lowercase() == t.name {
                        self.open.truncate(i);
                        return;
                    }
                    i -= 1;
                }
            },
            Tk::Eof => unreachable!(),
        }
    }

    // ------------------------------------------------------------ driver
    fn feed(&mut self, tk: Tk) {
        if self.done {
            return;
        }
        // "if the next token is a U+000A LINE FEED character token, ignore it"
        if self.skip_lf {
            self.skip_lf = false;
            if matches!(tk, Tk::Char('\n')) {
                return;
            }
        }
        self.dispatch(tk);
    }
}

pub struct ROut {
    pub dom: Dom,
    pub quirks: u8,
}

fn no_switch(_: &str) -> Option<rtok::Switch> {
    None
}

/// Parse `input` completely with the reference tokenizer + tree builder.
pub fn parse(cfg: &RCfg, input: &str) -> ROut {
    parse_keyed(cfg, input).0
}

/// As `parse`, and also a digest of the complete reference state (tree-construction state, DOM, tokenizer
/// control state) at the point where all of `input` has been consumed and end-of-file is not yet known:
/// the reference half of the product-state key of the E2 searches.
pub fn parse_keyed(cfg: &RCfg, input: &str) -> (ROut, u128, String) {
    let mut tree = RTree::new(cfg);
    let cdata = Rc::new(Cell::new(false));
    let mut start = S::Data;
    if let Some((ns, local, attrs, with_form, allows_scripting)) = &cfg.fragment {
        // fragment set-up
        let tag = TagTok { end: false, name: local.clone(), attrs: attrs.clone(), self_closing: false, dup: false };
        let ctx = tree.create_element(&tag, ns);
        tree.context = Some(ctx);
        if *with_form {
            let ft = TagTok { end: false, name: "form".into(), attrs: vec![], self_closing: false, dup: false };
            let f = tree.create_element(&ft, HTML_NS);
            tree.form = Some(f);
        }
        if ns == HTML_NS {
            start = match local.as_str() {
                "title" | "textarea" => S::Rcdata,
                "style" | "xmp" | "iframe" | "noembed" | "noframes" => S::Rawtext,
                "script" => S::ScriptData,
                "noscript" if *allows_scripting => S::Rawtext,
                "plaintext" => S::Plaintext,
                _ => S::Data,
            };
        }
        tree.create_root(None);
        if ns == HTML_NS && local == "template" {
            tree.template_modes.push(Mode::InTemplate);
        }
        tree.reset_insertion_mode();
    }
    let s = if cfg.discard_bom { input.strip_prefix('\u{feff}').unwrap_or(input) } else { input };
    let rc = rtok::Cfg { start, last_start_tag: None, cdata_allowed: cdata.clone(), switch: no_switch, _m: std::marker::PhantomData };
    let mut tok = RTok::new(rc);
    tok.input = rtok::normalize(s);
    tok.eof = false;
    let mut key: Option<(u128, String)> = None;
    let mut seen = 0usize;
    // (fragment case: no start tag token has been emitted, so no end tag is "appropriate")
    let update_cdata = |tree: &RTree, cdata: &Rc<Cell<bool>>| {
        let v = match tree.adjusted_current() {
            Some(n) => !matches!(tree.dom.elem(n), Some((HTML_NS, _))),
            None => false,
        };
        cdata.set(v);
    };
    update_cdata(&tree, &cdata);
    while !tok.done {
        tok.suspended = false;
        tok.step();
        while seen < tok.out.len() {
            let e = tok.out[seen].clone();
            seen += 1;
            let tk = match e.tok {
                RToken::Doctype { name, public, system, force_quirks } => Tk::Doctype { name, public, system, fq: force_quirks },
                RToken::Tag { end, name, attrs, self_closing, dup } => Tk::Tag(TagTok { end, name, attrs, self_closing, dup }),
                RToken::Comment(c) => Tk::Comment(c),
                RToken::Char(c) => Tk::Char(c),
                RToken::Eof => Tk::Eof,
            };
            tree.feed(tk);
            if let Some(s) = tree.switch.take() {
                tok.state = s;
            }
            update_cdata(&tree, &cdata);
        }
        if tok.suspended && !tok.eof {
            key = Some((tree.state_digest(&tok, s.ends_with('\r')), tree.ctl_summary()));
            tok.eof = true;
        }
    }
    let (key, summary) = key.unwrap_or_else(|| (tree.state_digest(&tok, false), String::new()));
    (ROut { dom: tree.dom, quirks: tree.quirks }, key, summary)
}
