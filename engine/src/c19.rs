//! C19: EncodingIndicator raised exactly for meta-declared encodings.
use crate::c03::chunkings;
use crate::common::*;
use crate::dom::*;
use crate::e2::{fragment_contexts, mode_witnesses, sigma_full, witness};
use crate::tokh::Feed;
use crate::treeh::*;
use rayon::prelude::*;
use serde_json::json;
use std::collections::BTreeSet;
use std::sync::atomic::{AtomicU64, Ordering};
use std::sync::Mutex;

/// R-meta: "algorithm for extracting a character encoding from a meta element"
/// (returns the substring handed to "get an encoding"; the registry lookup is
/// delegated to the embedder by html5ever's documented design)
pub fn r_meta(s: &str) -> Option<String> {
    let c: Vec<char> = s.chars().collect();
    let ws = |x: char| matches!(x, '\t' | '\n' | '\x0C' | '\r' | ' ');
    let mut pos = 0usize;
    loop {
        // 2. find "charset" (ASCII case-insensitive) after position
        let mut found = None;
        let mut i = pos;
        while i + 7 <= c.len() {
            let w: String = c[i..i + 7].iter().collect();
            if w.eq_ignore_ascii_case("charset") {
                found = Some(i);
                break;
            }
            i += 1;
        }
        pos = found? + 7;
        // 3. skip whitespace
        while pos < c.len() && ws(c[pos]) {
            pos += 1;
        }
        // 4. next must be '='
        if pos >= c.len() {
            return None;
        }
        if c[pos] != '=' {
            continue;
        }
        pos += 1;
        break;
    }
    // 5. skip whitespace
    while pos < c.len() && ws(c[pos]) {
        pos += 1;
    }
    // 6.
    if pos >= c.len() {
        return None;
    }
    let q = c[pos];
    if q == '"' || q == '\'' {
        let rest = &c[pos + 1..];
        let end = rest.iter().position(|x| *x == q)?;
        Some(rest[..end].iter().collect())
    } else {
        let rest = &c[pos..];
        let end = rest.iter().position(|x| ws(*x) || *x == ';').unwrap_or(rest.len());
        Some(rest[..end].iter().collect())
    }
}

/// expected label for an inserted HTML meta element
fn expected_label(d: &Dom, n: usize) -> Option<String> {
    let attrs = d.attrs(n);
    let get = |name: &str| attrs.iter().find(|a| a.ns.is_empty() && a.local == name).map(|a| a.value.clone());
    if let Some(cs) = get("charset") {
        return Some(cs);
    }
    if let Some(he) = get("http-equiv") {
        if he.eq_ignore_ascii_case("content-type") {
            if let Some(ct) = get("content") {
                return r_meta(&ct);
            }
        }
    }
    None
}

pub const META_VARIANTS: [&str; 16] = [
    "<meta charset=x>",
    "<meta charset=''>",
    "<meta http-equiv=content-type content='a;charset=b'>",
    "<meta HTTP-EQUIV=Content-Type CONTENT='text/html; CHARSET = \"q\" '>",
    "<meta http-equiv=content-type>",
    "<meta http-equiv=refresh content='charset=z'>",
    "<meta content='charset=w' http-equiv=CONTENT-TYPE charset=v>",
    "<meta name=x content='charset=n'>",
    "<meta http-equiv=content-type content='charset'>",
    "<meta http-equiv=content-type content='a;charset\x0C=\x0Cb\x0Cc'>",
    // the keyword must match as a whole: no trimming, no prefix / suffix match
    "<meta http-equiv=' content-type' content='charset=t1'>",
    "<meta http-equiv='content-type ' content='charset=t2'>",
    "<meta http-equiv='content-type\n' content='charset=t3'>",
    "<meta http-equiv=content-typex content='charset=t4'>",
    "<meta http-equiv=content content='charset=t5'>",
    "<meta http-equiv='' content='charset=t6'>",
];

pub const NON_META_VARIANTS: [&str; 7] = [
    "<link charset=x>",
    "<link rel=stylesheet charset=utf-8 href=a>",
    "<base charset=x>",
    "<basefont charset=x>",
    "<bgsound charset=x>",
    "<link http-equiv=content-type content='charset=q'>",
    "<svg><meta charset=x></svg>",
];

struct Acc {
    evals: AtomicU64,
    indicators: AtomicU64,
    outcomes: Mutex<BTreeSet<u128>>,
}

fn neutralise(s: &str) -> String {
    // same structure, but no attribute that can trigger an indicator
    let mut out = String::new();
    let lower = s.to_ascii_lowercase();
    let mut i = 0;
    let b = s.as_bytes();
    while i < b.len() {
        if lower[i..].starts_with("charset") {
            out.push_str(&s[i..i + 6]);
            out.push('x');
            i += 7;
        } else if lower[i..].starts_with("http-equiv") {
            out.push_str(&s[i..i + 9]);
            out.push('x');
            i += 10;
        } else {
            let ch = s[i..].chars().next().unwrap();
            out.push(ch);
            i += ch.len_utf8();
        }
    }
    out
}

fn check(ctx: &Ctx, acc: &Acc, cfg: &TreeCfg, input: &str, scheds: &[Vec<Feed>], local: &mut BTreeSet<u128>) {
    let env = Env::default();
    // reference: same structure with the triggering attribute names neutralised
    let neutral = guarded(|| run_tree(cfg, &[Feed::Chunk(neutralise(input))], &env, true)).ok().map(|o| {
        let s = o.sink.as_ref().unwrap().dom.borrow().render_doc();
        (s, o.indicators.len())
    });
    for s in scheds {
        acc.evals.fetch_add(1, Ordering::Relaxed);
        let Ok(o) = guarded(|| run_tree(cfg, s, &env, true)) else { continue };
        let sink = o.sink.as_ref().unwrap();
        let d = sink.dom.borrow();
        let want: Vec<String> = sink.metas.borrow().iter().filter_map(|&m| expected_label(&d, m)).collect();
        acc.indicators.fetch_add(o.indicators.len() as u64, Ordering::Relaxed);
        local.insert(digest(&want));
        let w = || witness(cfg, s, &env);
        if o.indicators != want {
            ctx.violation("indicator-sequence", &w(), json!({"raised": o.indicators, "expected_from_inserted_meta_elements": want, "tree": d.render_doc()}));
            continue;
        }
        if o.indicator_meta_attached.iter().any(|a| !a) {
            ctx.violation("meta-not-in-tree", &w(), json!({"note": "feed returned an EncodingIndicator before the meta element was attached"}));
        }
        if let Some((nt, nind)) = &neutral {
            if *nind != 0 {
                continue; // neutralisation did not remove every trigger (e.g. entity-built names); skip the structural comparison
            }
            let mine = neutralise(&d.render_doc());
            let theirs = neutralise(nt);
            if mine != theirs {
                ctx.violation("resume-changes-tree", &w(), json!({"tree": d.render_doc(), "tree_without_indicators": nt}));
            }
        }
    }
}

pub fn main(ctx: &Ctx) -> ! {
    let acc = Acc { evals: AtomicU64::new(0), indicators: AtomicU64::new(0), outcomes: Mutex::new(BTreeSet::new()) };
    let sig = sigma_full();
    let max_cuts = ctx.tier.pick(2, 3);
    // 1. meta variants in every insertion mode (witness + meta + follower), document and fragments
    let mut cases: Vec<(TreeCfg, String)> = vec![];
    let mut prefixes: Vec<String> = mode_witnesses().iter().map(|w| w.concat()).collect();
    prefixes.push(String::new());
    for a in &sig {
        prefixes.push(a.to_string());
    }
    for p in &prefixes {
        for m in META_VARIANTS {
            cases.push((TreeCfg::default(), format!("{p}{m}")));
            cases.push((TreeCfg { scripting: false, ..Default::default() }, format!("{p}{m}x")));
            for f in ["<p>", "</head>", "<meta charset=y>", "<table>", "</template>", "<tr>", "<td>x", "x", " y", "<!--c-->", "</table>z", "<col>", "<caption>"] {
                cases.push((TreeCfg::default(), format!("{p}{m}{f}")));
            }
        }
    }
    // the other elements of the shared "in head" arm, with the attributes that declare an encoding on a meta:
    // nothing may be raised for them
    for p in &prefixes {
        for m in NON_META_VARIANTS {
            cases.push((TreeCfg::default(), format!("{p}{m}")));
            cases.push((TreeCfg::default(), format!("{p}{m}<meta charset=y>")));
        }
    }
    if ctx.tier == Tier::Thorough {
        for a in &sig {
            for b in &sig {
                for m in &META_VARIANTS[..4] {
                    cases.push((TreeCfg::default(), format!("{a}{b}{m}")));
                }
            }
        }
    }
    for f in fragment_contexts() {
        for m in META_VARIANTS {
            cases.push((TreeCfg { fragment: Some(f.clone()), ..Default::default() }, format!("{m}x{m}")));
        }
        // a meta reached through every insertion mode / after every tree lexeme inside every fragment context
        // (foreign content, tables, templates ... below a context element that cannot be popped)
        for p in &prefixes {
            for m in [META_VARIANTS[0], META_VARIANTS[3]] {
                cases.push((TreeCfg { fragment: Some(f.clone()), ..Default::default() }, format!("{p}{m}y")));
            }
        }
    }
    cases.par_iter().for_each(|(cfg, input)| {
        let mut local = BTreeSet::new();
        let n = input.chars().count();
        let scheds = chunkings(input, if n > 60 { 0 } else if n > 30 { 1.min(max_cuts) } else { max_cuts }, 0);
        check(ctx, &acc, cfg, input, &scheds, &mut local);
        acc.outcomes.lock().unwrap().extend(local);
    });
    // 2. exhaustive content-attribute sweep
    // U+0130 and U+212A change their UTF-8 length under Unicode case mapping (2->3 and 3->1 bytes)
    let lex = ["charset", "CHARSET", "chars", " ", "\t", "=", "&quot;", "'", ";", "x", "\u{e9}", "\x0C", "\n", "\u{130}", "\u{212a}"];
    let depth = ctx.tier.pick(5, 7);
    let n = lex.len();
    let total = (1..=depth).map(|d| n.pow(d as u32)).sum::<usize>();
    let firsts: Vec<usize> = (0..n * n).collect();
    let cfg = TreeCfg::default();
    firsts.par_iter().for_each(|&f| {
        let mut local = BTreeSet::new();
        let (a, b) = (f / n, f % n);
        // all strings starting with lexemes a,b of total length 2..=depth
        let mut stack: Vec<Vec<usize>> = vec![vec![a, b]];
        if b == 0 {
            stack.push(vec![a]);
        }
        while let Some(cur) = stack.pop() {
            let content: String = cur.iter().map(|&i| lex[i]).collect();
            let input = format!("<meta http-equiv=content-type content=\"{content}\">");
            check(ctx, &acc, &cfg, &input, &[vec![Feed::Chunk(input.clone())]], &mut local);
            if cur.len() < depth {
                for i in 0..n {
                    let mut nx = cur.clone();
                    nx.push(i);
                    stack.push(nx);
                }
            }
        }
        acc.outcomes.lock().unwrap().extend(local);
    });
    // direct comparison of r_meta with the label on a few spot strings (self-check of the harness)
    for (s, w) in [("charset=utf8", Some("utf8")), ("charset = 'a b' ", Some("a b")), ("charset='a", None), ("xcharset charset=;y", Some("")), ("charset", None)] {
        if r_meta(s).as_deref() != w {
            machinery(&format!("r_meta self-check failed on {s:?}"));
        }
    }
    ctx.assume("'returns a label' = the extraction algorithm returns a substring (html5ever delegates 'get an encoding' to the embedder); expected labels are computed from the attributes of every HTML meta element at the moment the sink sees it inserted");
    ctx.assume("resume-as-if-nothing-happened is checked metamorphically against the same input with the triggering attribute names altered (charsex / http-equix)");
    ctx.finish(
        "model_checking",
        json!({
            "evaluations": acc.evals.load(Ordering::Relaxed),
            "distinct_nontrivial": acc.outcomes.lock().unwrap().len(),
            "indicators_observed": acc.indicators.load(Ordering::Relaxed),
            "mode_cases": cases.len(),
            "content_strings": total,
            "rule": format!("9 meta variants after every insertion-mode witness and every tree lexeme (document, scripting on/off) and in 35 fragment contexts, under every chunking with <= {max_cuts} cuts; all content strings of <= {depth} lexemes over {{charset, CHARSET, chars, SP, TAB, FF, LF, =, \", ', ;, x, e-acute, U+0130, U+212A}}: sequence of EncodingIndicator labels == labels expected from the inserted HTML meta elements (R-meta), meta attached when feed returns, tree unchanged by the suspension. distinct_nontrivial = distinct expected label sequences."),
            "exhaustive": true,
            "samples": ["<table><meta charset=x>", "<frameset><meta charset=x>", "<meta http-equiv=content-type content=\"charset charset = &quot;x&quot;\">", "<svg><meta charset=x>"],
        }),
    )
}

pub fn replay(ctx: &Ctx, v: &serde_json::Value) {
    let w = v["witness"].as_str().unwrap_or("");
    let (cfg, sched, _) = crate::e2::parse_tree_witness(w);
    let input: String = sched.iter().map(|f| if let Feed::Chunk(s) = f { s.as_str() } else { "" }).collect();
    let acc = Acc { evals: AtomicU64::new(0), indicators: AtomicU64::new(0), outcomes: Mutex::new(BTreeSet::new()) };
    let mut local = BTreeSet::new();
    check(ctx, &acc, &cfg, &input, &[sched], &mut local);
    println!("replay: {}", if ctx.violations() == 0 { "passes" } else { "FAILS" });
}
