//! E1: explicit-state product search of the real HTML tokenizer against R-tok.
//! Serves C01 (tokens) and C09 (line numbers) -- same jobs, different clause.
use crate::bfs::*;
use crate::common::*;
use crate::tokh::*;
use html5ever::tokenizer::verif::VerifTok;
use rayon::prelude::*;
use serde_json::json;
use std::collections::{BTreeMap, BTreeSet};
use std::sync::atomic::{AtomicU64, Ordering};
use std::sync::Mutex;

pub const P16: &str = "xxxxxxxxxxxxxxxx";

pub fn lexemes() -> Vec<&'static str> {
    vec![
        "a", "<", ">", "/", " ", "=", "\"", "'", "&", ";", "#", "!", "-", "?", "x", "\n", "\r", "\r\n", "\t", "\x0C",
        "0", "9", "A", "F", "X", "Z", "f", "z", "[", "]", "`", "\0", "\u{7f}", "\u{e9}", "\u{feff}", "\u{fffe}",
        "\u{1F600}", "--", "doctype", "DOCTYPE", "public", "SYSTEM", "[CDATA[", "script", "amp", "amp;", "not",
        "notin;", "#x", "t", "r", "pt", P16, "SCRIPT", "T", "PUBLIC", "system", "[cdata[", "[CDaTA[",
    ]
}

pub const CLOSERS: [&str; 2] = ["", "\"'>-->]]>"];

fn cap2(s: &str) -> usize {
    s.chars().count().min(2)
}

/// Abstract key of the implementation state (see DESIGN.md C01 for the soundness argument).
pub fn abstract_key(d: &VerifTok, queue_left: &str) -> String {
    let eat_state = d.state == "MarkupDeclarationOpen" || d.state == "AfterDoctypeName";
    let cr = d.char_ref.as_ref().map(|c| {
        let name = match &c.name_buf {
            None => "-".to_string(),
            Some(n) if c.state == "Named" => n.clone(),
            Some(n) => format!("#{}", cap2(n)),
        };
        format!(
            "{}|{}|{}|{}|{}|{}|{}|{}|{}",
            c.state,
            c.in_attribute,
            if c.num == 0 { 0 } else if c.num > 0x10FFFF { 2 } else { 1 },
            c.num_too_big,
            c.seen_digit,
            c.hex_marker.is_some(),
            name,
            c.name_match.is_some(),
            c.name_len.min(1)
        )
    });
    format!(
        "{}|rc={}:{}|lf={}|bom={}|eof={}|cr={:?}|tk={}|tn={}:{}|sc={}|dup={}|na={}|an={}:{}|av={}|c={}|dt={}|lst={}|tb={}|q={:?}",
        d.state,
        d.reconsume,
        if d.reconsume { d.current_char } else { ' ' },
        d.ignore_lf,
        d.discard_bom,
        d.at_eof,
        cr,
        d.tag_kind,
        cap2(&d.tag_name),
        d.last_start_tag.as_deref() == Some(d.tag_name.as_str()),
        d.self_closing,
        d.had_duplicate_attributes,
        d.attrs.len().min(2),
        cap2(&d.attr_name),
        d.attrs.iter().any(|(n, _)| *n == d.attr_name),
        cap2(&d.attr_value),
        cap2(&d.comment),
        // doctype: Debug string; keep only the shape
        doctype_shape(&d.doctype),
        d.last_start_tag.is_some(),
        if eat_state { d.temp_buf.clone() } else { format!("#{}:{}", cap2(&d.temp_buf), d.temp_buf == "script") },
        queue_left,
    )
}

fn doctype_shape(dbg: &str) -> String {
    // Doctype { name: Some(..)|None, public_id: .., system_id: .., force_quirks: b }
    let f = |key: &str| -> u8 {
        match dbg.find(key) {
            None => 9,
            Some(i) => {
                let rest = &dbg[i + key.len()..];
                if rest.starts_with("None") {
                    0
                } else if rest.contains("\"\")") && rest.find("\"\")").unwrap() < rest.find(',').unwrap_or(usize::MAX) + 40
                    && rest.starts_with("Some(Tendril<UTF8>(inline: \"\")")
                {
                    1
                } else {
                    2
                }
            },
        }
    };
    format!("{}{}{}{}", f("name: "), f("public_id: "), f("system_id: "), dbg.contains("force_quirks: true"))
}

pub fn control_key(d: &VerifTok) -> String {
    format!(
        "{}|{}|{}|{:?}",
        d.state,
        d.reconsume,
        d.ignore_lf,
        d.char_ref.as_ref().map(|c| (c.state.clone(), c.in_attribute))
    )
}

pub fn render(lex: &[&str], h: &[u16]) -> String {
    h.iter().map(|&s| lex[s as usize]).collect()
}

pub fn sched_of(lex: &[&str], h: &[u16]) -> Vec<Feed> {
    h.iter().map(|&s| Feed::Chunk(lex[s as usize].to_string())).collect()
}

pub struct Mode {
    pub tokens: bool,
    pub lines: bool,
}

/// run history (+closer) on the real code chunk-per-lexeme with end(), compare with R-tok
fn check_one(ctx: &Ctx, mode: &Mode, cfg: &TokCfg, sched: &[Feed], input: &str, what: &str) -> bool {
    let real = match guarded(|| run_real(cfg, sched, &[], true, false)) {
        Ok(r) => r,
        Err(p) => {
            if mode.tokens {
                ctx.violation("panic", &witness(cfg, sched), json!({"panic": p, "job": what}));
                return false;
            }
            return true;
        },
    };
    let r = run_ref(cfg, input);
    match compare(&real, &r, mode.lines) {
        None => true,
        Some((kind, msg)) => {
            let is_line = kind == "line";
            if (is_line && mode.lines) || (!is_line && mode.tokens) {
                ctx.violation(&kind, &witness(cfg, sched), json!({"message": msg, "job": what, "input": input}));
                false
            } else {
                // the token streams differ (the token check's business), but one clause of the line property
                // does not depend on token contents: the EOF token carries 1 + the line breaks of the whole input
                if mode.lines {
                    if let (Some(a), Some(b)) = (real.items.last(), r.items.last()) {
                        if matches!(a.0, Item::Eof) && matches!(b.0, Item::Eof) && a.1 != b.1 {
                            ctx.violation("line", &witness(cfg, sched), json!({"message": format!("EOF token on line {} but the input has {} line breaks (token streams differ as well: {msg})", a.1, b.1 - 1), "job": what, "input": input}));
                            return false;
                        }
                    }
                }
                true
            }
        },
    }
}

pub fn witness(cfg: &TokCfg, sched: &[Feed]) -> String {
    let chunks: Vec<String> = sched
        .iter()
        .map(|f| match f {
            Feed::Chunk(s) => format!("{s:?}"),
            Feed::Empty => "<empty>".into(),
        })
        .collect();
    format!(
        "start={} last={:?} cdata={} exact={} bom={} chunks=[{}]",
        START_STATES[cfg.start as usize],
        cfg.last_start_tag,
        cfg.cdata,
        cfg.exact_errors,
        cfg.discard_bom,
        chunks.join(",")
    )
}

pub fn configs(all: bool) -> Vec<TokCfg> {
    let mut v = vec![];
    let starts: Vec<u8> = if all { (0..6).collect() } else { vec![0, 2, 4] };
    for s in starts {
        for last in [None, Some("t"), Some("script"), Some("xx")] {
            for cdata in [false, true] {
                if !all {
                    // quick: {Data,none,cdata}, {RCDATA,t,no cdata}, {script data,script,no cdata}
                    let keep = (s == 0 && last.is_none() && cdata) || (s == 2 && last == Some("t") && !cdata) || (s == 4 && last == Some("script") && !cdata);
                    if !keep {
                        continue;
                    }
                }
                v.push(TokCfg { start: s, last_start_tag: last, cdata, ..Default::default() });
            }
        }
    }
    v
}

pub struct Stats {
    pub execs: AtomicU64,
    pub outcomes: Mutex<BTreeSet<u128>>,
}

/// Job 1: closure of the product graph for one configuration.
pub fn closure(
    ctx: &Ctx,
    mode: &Mode,
    cfg: &TokCfg,
    max_states: u64,
    max_secs: f64,
    stats: &Stats,
    controls: &Mutex<BTreeMap<String, Vec<u16>>>,
    edges: Option<&Mutex<Vec<Vec<u16>>>>,
) -> BfsOut {
    let lex = lexemes();
    // the bound of this job is the number of product states (a deterministic amount of work, so that two runs
    // of the same tier on the same tree explore exactly the same transitions whatever the machine and its
    // load); max_secs is only a safety net far above what that work needs
    let bcfg = BfsCfg { max_depth: 200, max_states, max_secs };
    let key_of = |h: &[u16]| -> Result<(u128, String), String> {
        let sched = sched_of(&lex, h);
        let o = guarded(|| run_real(cfg, &sched, &[], false, true))?;
        let d = o.dump.as_ref().unwrap();
        let input: String = render(&lex, h);
        let (rk, rlst) = ref_state(cfg, &input);
        // agreement bits: where both sides keep the same piece of state, the key records whether they
        // agree instead of the value (all true while the implementation is right, so the graph does not
        // grow; any disagreement makes a new state that is expanded rather than merged away)
        let agree = (d.last_start_tag == rlst, d.ignore_lf == input.ends_with('\r'));
        Ok((digest(&(abstract_key(d, &o.queue_left), rk, agree)), control_key(d)))
    };
    let (rootk, rootc) = key_of(&[]).unwrap();
    controls.lock().unwrap().entry(rootc).or_insert(vec![]);
    bfs(
        vec![(vec![], rootk)],
        lex.len(),
        &bcfg,
        |h, s| {
            let mut nh = h.to_vec();
            nh.push(s);
            let input = render(&lex, &nh);
            let mut ok = true;
            for cl in CLOSERS {
                let mut sched = sched_of(&lex, &nh);
                let mut full = input.clone();
                if !cl.is_empty() {
                    sched.push(Feed::Chunk(cl.to_string()));
                    full.push_str(cl);
                }
                stats.execs.fetch_add(1, Ordering::Relaxed);
                if !check_one(ctx, mode, cfg, &sched, &full, "closure") {
                    ok = false;
                    break;
                }
            }
            if !ok {
                return Step::Violation;
            }
            match key_of(&nh) {
                Ok((k, c)) => {
                    keep_min_witness(&mut controls.lock().unwrap(), c, nh.clone());
                    Step::Next(k)
                },
                Err(p) => {
                    if mode.tokens {
                        ctx.violation("panic", &witness(cfg, &sched_of(&lex, &nh)), json!({"panic": p}));
                    }
                    Step::Violation
                },
            }
        },
        |h, _d| {
            if let Some(e) = edges {
                e.lock().unwrap().push(h.to_vec());
            }
        },
    )
}

/// Job 2: from every control-state witness, all lexeme strings of length <= k, fed in one chunk after the witness.
pub fn continuations(ctx: &Ctx, mode: &Mode, cfg: &TokCfg, witnesses: &[Vec<u16>], k: usize, stats: &Stats) -> u64 {
    let lex = lexemes();
    let n = lex.len();
    let total = AtomicU64::new(0);
    // enumerate suffixes as numbers in base n for each length 1..=k
    let mut tasks: Vec<(usize, usize, usize)> = vec![]; // (witness, len, first symbol)
    for w in 0..witnesses.len() {
        for len in 1..=k {
            for f in 0..n {
                tasks.push((w, len, f));
            }
        }
    }
    tasks.par_iter().for_each(|&(w, len, first)| {
        let prefix: String = render(&lex, &witnesses[w]);
        let pre_sched = sched_of(&lex, &witnesses[w]);
        let count = n.pow((len - 1) as u32);
        let mut local = BTreeSet::new();
        for idx in 0..count {
            let mut suffix = String::from(lex[first]);
            let mut x = idx;
            for _ in 1..len {
                suffix.push_str(lex[x % n]);
                x /= n;
            }
            let mut sched = pre_sched.clone();
            sched.push(Feed::Chunk(suffix.clone()));
            let full = format!("{prefix}{suffix}");
            check_one(ctx, mode, cfg, &sched, &full, "continuation");
            if idx % 64 == 0 {
                local.insert(digest(&run_ref(cfg, &full).items));
            }
        }
        total.fetch_add(count as u64, Ordering::Relaxed);
        stats.execs.fetch_add(count as u64, Ordering::Relaxed);
        stats.outcomes.lock().unwrap().extend(local);
    });
    total.load(Ordering::Relaxed)
}

/// Job 4: from every control-state witness, every ASCII character and a few non-ASCII ones
/// (character classes that are not lexemes of the alphabet), followed by short continuations.
pub fn ascii_sweep(ctx: &Ctx, mode: &Mode, cfg: &TokCfg, witnesses: &[Vec<u16>], stats: &Stats) -> u64 {
    let lex = lexemes();
    let mut chars: Vec<char> = (0u8..=127).map(|b| b as char).collect();
    chars.extend(['\u{80}', '\u{a0}', '\u{ff}', '\u{130}', '\u{212a}', '\u{2028}', '\u{fdd0}', '\u{fffd}', '\u{ffff}', '\u{10ffff}']);
    let conts = ["", ">", "=x>", "a>", "\"'>-->]]>", "\n"];
    let n = AtomicU64::new(0);
    witnesses.par_iter().for_each(|w| {
        let prefix = render(&lex, w);
        let pre = sched_of(&lex, w);
        for &c in &chars {
            for k in conts {
                let suffix = format!("{c}{k}");
                let mut sched = pre.clone();
                sched.push(Feed::Chunk(suffix.clone()));
                check_one(ctx, mode, cfg, &sched, &format!("{prefix}{suffix}"), "ascii-sweep");
                n.fetch_add(1, Ordering::Relaxed);
            }
        }
    });
    stats.execs.fetch_add(n.load(Ordering::Relaxed), Ordering::Relaxed);
    n.load(Ordering::Relaxed)
}

/// Job 3: SIMD window sweep in the data state.
/// every string of `len` filler characters with one special inserted before character #i and a
/// second before character #j >= i (all i; all j for the single-character specials)
pub fn window_strings(len: usize, filler: char, mut f: impl FnMut(&str)) {
    let specials = ["\n", "\r", "\r\n", "<", "&", "\0", "\u{e9}", "&amp;", "<b>"];
    for (ai, a) in specials.iter().enumerate() {
        for i in 0..=len {
            for (bi, b) in specials.iter().enumerate() {
                if filler != 'x' && (ai >= 6 || bi >= 6) {
                    continue;
                }
                let js: Vec<usize> = if bi < 4 { (i..=len).collect() } else { vec![i, len] };
                for j in js {
                    let mut s = String::with_capacity(len * 4 + 12);
                    for k in 0..=len {
                        if k == i {
                            s.push_str(a);
                        }
                        if k == j {
                            s.push_str(b);
                        }
                        if k < len {
                            s.push(filler);
                        }
                    }
                    f(&s);
                }
            }
        }
    }
}

pub fn simd_windows(ctx: &Ctx, mode: &Mode, stats: &Stats, maxlen: usize) -> u64 {
    let cfg = TokCfg::default();
    // filler characters: plain ASCII, a line break (every newline of a block is counted), and
    // multi-byte characters that straddle the 16-byte stride at every offset
    let fillers: &[char] = if maxlen > 40 { &['x', '\n', '\u{e9}', '\u{20ac}', '\u{1f600}', '\r'] } else { &['x', '\n', '\u{e9}'] };
    let lens: Vec<(usize, char)> = fillers.iter().flat_map(|&f| (if f == 'x' { 15 } else { 14 }..=if f == 'x' { maxlen } else { maxlen.min(36) }).map(move |l| (l, f))).collect();
    let total = AtomicU64::new(0);
    lens.par_iter().for_each(|&(len, filler)| {
        let mut n = 0u64;
        let mut local = BTreeSet::new();
        window_strings(len, filler, |s| {
            let sched = vec![Feed::Chunk(s.to_string())];
            check_one(ctx, mode, &cfg, &sched, s, "simd-window");
            n += 1;
            if n % 16 == 0 {
                local.insert(digest(&run_ref(&cfg, s).items));
            }
        });
        total.fetch_add(n, Ordering::Relaxed);
        stats.execs.fetch_add(n, Ordering::Relaxed);
        stats.outcomes.lock().unwrap().extend(local);
    });
    total.load(Ordering::Relaxed)
}

/// Long single runs through every run-consuming state (the shapes of the C04 scale grid) at lengths on
/// and next to powers of two, one piece and cut in the middle: tokens and lines against R-tok.
pub fn long_runs(ctx: &Ctx, mode: &Mode, stats: &Stats, only: Option<(&str, usize, usize)>) -> u64 {
    let sizes: Vec<usize> = if ctx.tier == Tier::Thorough { vec![255, 256, 257, 4095, 4096, 4097, 65535, 65536, 65537, 262144, 1048577] } else { vec![255, 256, 257, 4096, 4097, 65537] };
    let mut tasks: Vec<(&'static str, usize, usize)> = vec![];
    for sh in crate::c04::RUN_SHAPES {
        for &n in &sizes {
            for cut in [0usize, 1, 2] {
                tasks.push((sh, n, cut));
            }
        }
    }
    if let Some((sh, n, cut)) = only {
        tasks = tasks.into_iter().filter(|t| t.0 == sh && t.1 == n && t.2 == cut).collect();
    }
    let n_tasks = tasks.len() as u64;
    let cfg = TokCfg { cdata: true, ..Default::default() };
    tasks.par_iter().for_each(|&(sh, n, cut)| {
        let input = crate::c04::scale_input(sh, n);
        // cut 0: one piece; 1: cut in the middle; 2: cut one character before the end
        let chars: Vec<char> = input.chars().collect();
        let k = match cut {
            0 => 0,
            1 => chars.len() / 2,
            _ => chars.len().saturating_sub(1),
        };
        let sched: Vec<Feed> = if k == 0 { vec![Feed::Chunk(input.clone())] } else { vec![Feed::Chunk(chars[..k].iter().collect()), Feed::Chunk(chars[k..].iter().collect())] };
        stats.execs.fetch_add(1, Ordering::Relaxed);
        let w = format!("long-run shape={sh} n={n} cut={cut}");
        let real = match guarded(|| run_real(&cfg, &sched, &[], true, false)) {
            Ok(r) => r,
            Err(p) => {
                if mode.tokens {
                    ctx.violation("panic", &w, json!({"panic": p}));
                }
                return;
            },
        };
        let r = run_ref(&cfg, &input);
        if let Some((kind, msg)) = compare(&real, &r, mode.lines) {
            let is_line = kind == "line";
            if (is_line && mode.lines) || (!is_line && mode.tokens) {
                ctx.violation(&kind, &w, json!({"message": msg.chars().take(600).collect::<String>()}));
            }
        }
    });
    n_tasks
}

pub fn main(ctx: &Ctx, lines: bool) -> ! {
    let mode = Mode { tokens: !lines, lines };
    let lex = lexemes();
    let stats = Stats { execs: AtomicU64::new(0), outcomes: Mutex::new(BTreeSet::new()) };
    let cfgs = configs(ctx.tier == Tier::Thorough);
    // job 1 bound, in product states per configuration (VERIF_C01_MAX_STATES overrides it for experiments: the
    // closed graph of a configuration has 2.2e5-3.7e5 states, so 2000000 closes every configuration that is run)
    let override_states: Option<u64> = std::env::var("VERIF_C01_MAX_STATES").ok().and_then(|v| v.parse().ok());
    let principal = configs(false);
    let is_principal = |c: &TokCfg| principal.iter().any(|p| p.start == c.start && p.last_start_tag == c.last_start_tag && p.cdata == c.cdata);
    let net_secs = ctx.tier.pick(300.0, 900.0);
    let mut jobs = vec![];
    let mut states = 0u64;
    let mut transitions = 0u64;
    let mut all_closed = true;
    let mut deepest = String::new();
    let mut max_depth = 0;
    let mut ctl_total = 0usize;
    let mut cont_total = 0u64;
    let mut ascii_total = 0u64;
    let k = ctx.tier.pick(2, 3);
    for cfg in &cfgs {
        let controls = Mutex::new(BTreeMap::new());
        // quick: 64 000 states each; thorough: the three principal configurations to a closed frontier, the
        // others 128 000 states each
        let max_states = override_states.unwrap_or(match ctx.tier {
            Tier::Quick => 64_000,
            Tier::Thorough => if is_principal(cfg) { 2_000_000 } else { 128_000 },
        });
        let out = closure(ctx, &mode, cfg, max_states, net_secs, &stats, &controls, None);
        states += out.states;
        transitions += out.transitions;
        all_closed &= out.closed;
        if out.max_depth > max_depth {
            max_depth = out.max_depth;
            deepest = render(&lex, &out.deepest);
        }
        let cs = controls.into_inner().unwrap();
        ctl_total += cs.len();
        let ws: Vec<Vec<u16>> = cs.values().cloned().collect();
        let kk = if cfg.start == 0 && cfg.last_start_tag.is_none() && !cfg.cdata { k } else { k.min(2) };
        let c = continuations(ctx, &mode, cfg, &ws, kk, &stats);
        cont_total += c;
        ascii_total += ascii_sweep(ctx, &mode, cfg, &ws, &stats);
        jobs.push(json!({
            "config": witness(cfg, &[]), "states": out.states, "transitions": out.transitions, "max_depth": out.max_depth, "levels_fully_expanded": out.complete_depth,
            "closed": out.closed, "capped_by": out.capped_by, "control_states": cs.len(), "continuation_k": kk, "continuations": c,
        }));
    }
    let simd = simd_windows(ctx, &mode, &stats, ctx.tier.pick(34, 50));
    let long = long_runs(ctx, &mode, &stats, None);
    let forwarding = if mode.lines { crate::c03::line_forwarding(ctx) } else { (0, 0) };
    ctx.assume(&format!("lexeme alphabet of {} symbols: one representative per character class any spec state distinguishes, plus multi-character lexemes (case-insensitive keywords in both cases, the case-sensitive [CDATA[ also in wrong case, entity names, 16 x's to enter the SIMD stride); characters outside these classes are assumed to behave like their class representative", lex.len()));
    ctx.assume("state key = abstract implementation dump (token buffers reduced to min(len,2) + the predicates the code tests) x R-tok control state; every transition is validated with two closers (EOF, and \"'>-->]]> which flushes every token buffer) so merged states have verified contents");
    ctx.assume("R-tok: reference transliteration of the WHATWG tokenizer (engine/src/rtok.rs); entity table exported from python's html.entities.html5; parse errors are not compared");
    ctx.assume("start states limited to the six the fragment algorithm can select; switch policy t/title/textarea->RCDATA, r/style/xmp/iframe/noembed/noframes->RAWTEXT, script->script data, pt/plaintext->PLAINTEXT");
    if lines {
        ctx.assume("line rule: non-character tokens and EOF exact; a character piece must carry the line of the spec position of its last character, with one character of look-ahead tolerance; non-decreasing");
    }
    ctx.finish(
        "model_checking",
        json!({
            "states": states,
            "transitions": transitions,
            "traces_validated_against_impl": stats.execs.load(Ordering::Relaxed),
            "evaluations": stats.execs.load(Ordering::Relaxed),
            "distinct_nontrivial": stats.outcomes.lock().unwrap().len(),
            "rule": "job1: product BFS (real tokenizer fed one lexeme per chunk x R-tok), every transition compared under 2 closers; job2: from the shortest witness of every control state (state x reconsume x ignore_lf x char-ref sub-state) all lexeme strings of length <= k in one chunk; job4: from every control-state witness every ASCII character and 10 non-ASCII ones x 6 continuations; job3: data-state strings of 15..N x's with up to two special items at every pair of positions (SIMD stride, mask and tail). distinct_nontrivial = distinct reference token streams among a 1/64 slice of job 2/3 inputs.",
            "exhaustive": all_closed,
            "frontier_closed": all_closed,
            "max_depth": max_depth,
            "control_states": ctl_total,
            "continuations": cont_total,
            "ascii_sweep_runs": ascii_total,
            "simd_window_strings": simd,
            "long_run_cases": long,
            "line_forwarding_runs": forwarding.0,
            "line_forwarding_sink_calls_checked": forwarding.1,
            "configs": jobs,
            "samples": [deepest, "<a b=\n\"x\">\n", format!("{P16}\r\n<b>")],
        }),
    )
}

pub fn replay(ctx: &Ctx, v: &serde_json::Value, lines: bool) {
    let w = v["witness"].as_str().unwrap_or("");
    if let Some(rest) = w.strip_prefix("long-run ") {
        let get = |k: &str| rest.split(' ').find_map(|p| p.strip_prefix(k)).unwrap_or("").to_string();
        let stats = Stats { execs: AtomicU64::new(0), outcomes: Mutex::new(BTreeSet::new()) };
        let n = long_runs(ctx, &Mode { tokens: !lines, lines }, &stats, Some((&get("shape="), get("n=").parse().unwrap_or(0), get("cut=").parse().unwrap_or(0))));
        println!("replay: {} case(s) re-run, {}", n, if ctx.violations() == 0 { "passes" } else { "FAILS" });
        return;
    }
    let (cfg, sched) = parse_witness(w);
    let input: String = sched.iter().map(|f| if let Feed::Chunk(s) = f { s.as_str() } else { "" }).collect();
    let mode = Mode { tokens: !lines, lines };
    let real = guarded(|| run_real(&cfg, &sched, &[], true, false));
    let r = run_ref(&cfg, &input);
    match &real {
        Ok(o) => {
            println!("real : {:?}", o.items);
            println!("spec : {:?}", r.items);
        },
        Err(p) => println!("real : PANIC {p}"),
    }
    let ok = check_one(ctx, &mode, &cfg, &sched, &input, "replay");
    println!("replay: {}", if ok { "passes" } else { "FAILS" });
}

/// inverse of `witness`
pub fn parse_witness(w: &str) -> (TokCfg, Vec<Feed>) {
    let mut cfg = TokCfg::default();
    let get = |k: &str| -> String {
        let i = w.find(k).unwrap_or_else(|| machinery(&format!("bad witness: {w}"))) + k.len();
        w[i..].split(' ').next().unwrap().to_string()
    };
    cfg.start = START_STATES.iter().position(|s| *s == get("start=")).unwrap() as u8;
    let last = get("last=");
    cfg.last_start_tag = match last.as_str() {
        "None" => None,
        "Some(\"t\")" => Some("t"),
        "Some(\"script\")" => Some("script"),
        "Some(\"xx\")" => Some("xx"),
        x => machinery(&format!("last={x}")),
    };
    cfg.cdata = get("cdata=") == "true";
    cfg.exact_errors = get("exact=") == "true";
    cfg.discard_bom = get("bom=") == "true";
    let i = w.find("chunks=[").unwrap() + 8;
    let body = &w[i..w.len() - 1];
    let mut sched = vec![];
    // chunks are Rust debug string literals separated by commas
    let mut rest = body;
    while !rest.is_empty() {
        if let Some(r) = rest.strip_prefix("<empty>") {
            sched.push(Feed::Empty);
            rest = r.strip_prefix(',').unwrap_or(r);
            continue;
        }
        // find closing quote (not escaped)
        let bytes = rest.as_bytes();
        assert_eq!(bytes[0], b'"');
        let mut j = 1;
        while j < bytes.len() {
            if bytes[j] == b'\\' {
                j += 2;
                continue;
            }
            if bytes[j] == b'"' {
                break;
            }
            j += 1;
        }
        let lit = &rest[..=j];
        let s: String = serde_json::from_str(&rust_to_json(lit)).unwrap_or_else(|e| machinery(&format!("chunk {lit}: {e}")));
        sched.push(Feed::Chunk(s));
        rest = &rest[j + 1..];
        rest = rest.strip_prefix(',').unwrap_or(rest);
    }
    (cfg, sched)
}

pub fn rust_to_json_pub(lit: &str) -> String {
    rust_to_json(lit)
}

/// Rust `{:?}` string literal -> JSON string literal
fn rust_to_json(lit: &str) -> String {
    // \u{XXXX} -> \uXXXX (with surrogate pairs), \0 -> \u0000, \' -> '
    let mut out = String::new();
    let cs: Vec<char> = lit.chars().collect();
    let mut i = 0;
    while i < cs.len() {
        if cs[i] == '\\' && i + 1 < cs.len() {
            match cs[i + 1] {
                'u' => {
                    let end = (i..cs.len()).find(|&k| cs[k] == '}').unwrap();
                    let hex: String = cs[i + 3..end].iter().collect();
                    let cp = u32::from_str_radix(&hex, 16).unwrap();
                    let c = char::from_u32(cp).unwrap();
                    let mut b = [0u16; 2];
                    for u in c.encode_utf16(&mut b) {
                        out.push_str(&format!("\\u{:04x}", u));
                    }
                    i = end + 1;
                    continue;
                },
                '0' => {
                    out.push_str("\\u0000");
                    i += 2;
                    continue;
                },
                '\'' => {
                    out.push('\'');
                    i += 2;
                    continue;
                },
                c => {
                    out.push('\\');
                    out.push(c);
                    i += 2;
                    continue;
                },
            }
        }
        out.push(cs[i]);
        i += 1;
    }
    out
}
