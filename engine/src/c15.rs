//! C15: xml5ever result independent of chunking / exact_errors / discard_bom;
//! CR, CRLF -> LF and NUL -> U+FFFD on every read path (metamorphic),
//! U+FEFF dropped only at stream start.
use crate::bfs::*;
use crate::c03::chunkings;
use crate::common::*;
use crate::dom::*;
use crate::tokh::Feed;
use crate::xmlh::*;
use rayon::prelude::*;
use serde_json::json;
use std::collections::{BTreeMap, BTreeSet};
use std::sync::atomic::{AtomicU64, Ordering};
use std::sync::Mutex;

pub fn xml_lexemes() -> Vec<&'static str> {
    vec![
        "a", "<", ">", "/", " ", "=", "\"", "'", "&", ";", "#", "!", "-", "?", "x", "\n", "\r", "\r\n", "\t", ":", "[", "]", "0", "9", "\0",
        "\u{feff}", "\u{e9}", "--", "[CDATA[", "DOCTYPE", "PUBLIC", "SYSTEM", "amp;", "amp", "#10;", "#x41;", "lt;", "xmlns", "p:a", "%", "(",
    ]
}

pub fn witness(cfg: &XmlCfg, sched: &[Feed]) -> String {
    let chunks: Vec<String> = sched
        .iter()
        .map(|f| match f {
            Feed::Chunk(s) => format!("{s:?}"),
            Feed::Empty => "<empty>".into(),
        })
        .collect();
    format!("{} chunks=[{}]", cfg.describe(), chunks.join(","))
}

pub fn parse_witness(w: &str) -> (XmlCfg, Vec<Feed>) {
    let get = |k: &str| -> String {
        let i = w.find(k).unwrap_or_else(|| machinery(&format!("bad witness: {w}"))) + k.len();
        w[i..].split(' ').next().unwrap().to_string()
    };
    let cfg = XmlCfg { exact_errors: get("exact=") == "true", discard_bom: get("bom=") == "true", profile: w.contains(" profile=true"), gc: w.contains(" gc=true"), ..Default::default() };
    let i = w.find("chunks=[").unwrap();
    let fake = format!("start=Data last=None cdata=false exact=false bom=true {}", &w[i..]);
    let (_, sched) = crate::c01::parse_witness(&fake);
    (cfg, sched)
}

pub fn control_witnesses() -> Vec<String> {
    let lex = xml_lexemes();
    let cfg = XmlCfg::default();
    let found: Mutex<BTreeMap<String, Vec<u16>>> = Mutex::new(BTreeMap::new());
    let key = |h: &[u16]| -> Option<String> {
        let sched: Vec<Feed> = h.iter().map(|&s| Feed::Chunk(lex[s as usize].to_string())).collect();
        let o = guarded(|| run_xml_tokens(&cfg, &sched, false, true)).ok()?;
        let d = o.dump?;
        Some(format!(
            "{}|{}|{}|{:?}|{}|{}",
            d.state,
            d.reconsume,
            d.ignore_lf,
            d.char_ref.as_ref().map(|c| (c.state.clone(), c.in_attribute)),
            d.tag_kind,
            d.attrs.len().min(1)
        ))
    };
    let root = key(&[]).unwrap();
    found.lock().unwrap().insert(root.clone(), vec![]);
    bfs(
        vec![(vec![], digest(&root))],
        lex.len(),
        &BfsCfg { max_depth: 12, max_states: 100_000, max_secs: 300.0 },
        |h, s| {
            let mut nh = h.to_vec();
            nh.push(s);
            match key(&nh) {
                None => Step::Disabled,
                Some(k) => {
                    let d = digest(&k);
keep_min_witness(&mut found.lock().unwrap(), k, nh);
                    Step::Next(d)
                },
            }
        },
        |_, _| {},
    );
    let mut v: Vec<String> = found.into_inner().unwrap().values().map(|h| h.iter().map(|&s| lex[s as usize]).collect()).collect();
    v.sort();
    v.dedup();
    v
}

pub fn tree_sig(o: &XTreeOut) -> String {
    o.sink.dom.borrow().render_doc()
}

/// absolute rules on a finished tree: no CR, no NUL anywhere
fn absolute_rules(d: &Dom, input: &str) -> Option<String> {
    let cr_by_ref = input.contains("#13") || input.to_ascii_lowercase().contains("#xd") || input.to_ascii_lowercase().contains("#x0d");
    for n in &d.nodes {
        let mut strs: Vec<&str> = vec![];
        match &n.kind {
            Kind::Text(t) | Kind::Comment(t) => strs.push(t),
            Kind::Pi { target, data } => {
                strs.push(target);
                strs.push(data);
            },
            Kind::Element { attrs, local, .. } => {
                strs.push(local);
                for a in attrs {
                    strs.push(&a.value);
                    strs.push(&a.local);
                }
            },
            Kind::Doctype { name, public, system } => {
                strs.push(name);
                strs.push(public);
                strs.push(system);
            },
            _ => {},
        }
        for s in strs {
            if s.contains('\0') {
                return Some(format!("U+0000 delivered in {:?}", n.kind));
            }
            if s.contains('\r') && !cr_by_ref {
                return Some(format!("U+000D delivered in {:?}", n.kind));
            }
        }
    }
    None
}

pub struct Stats {
    pub evals: AtomicU64,
    pub outcomes: Mutex<BTreeSet<u128>>,
}

pub fn check_input(ctx: &Ctx, st: &Stats, input: &str, max_cuts: usize, full: usize, local: &mut BTreeSet<u128>) {
    let dcfg = XmlCfg::default();
    let one = vec![Feed::Chunk(input.to_string())];
    let Ok(bt) = guarded(|| run_xml_tokens(&dcfg, &one, true, false)) else { return };
    let Ok(btree) = guarded(|| run_xml_tree(&dcfg, &one, true)) else { return };
    let bsig = tree_sig(&btree);
    local.insert(digest(&bsig));
    if let Some(m) = absolute_rules(&btree.sink.dom.borrow(), input) {
        ctx.violation("absolute", &witness(&dcfg, &one), json!({"message": m, "tree": bsig}));
    }
    // chunkings x options
    for s in chunkings(input, max_cuts, full) {
        for (ee, bom, profile) in [(false, true, false), (true, true, false), (false, false, false), (false, true, true)] {
            let cfg = XmlCfg { exact_errors: ee, discard_bom: bom, profile, ..Default::default() };
            if !bom && input.starts_with('\u{feff}') {
                continue; // handled by the BOM cases below
            }
            st.evals.fetch_add(1, Ordering::Relaxed);
            match guarded(|| run_xml_tokens(&cfg, &s, true, false)) {
                Err(p) => {
                    ctx.violation_for("C04", "panic", &witness(&cfg, &s), json!({"panic": p}));
                },
                Ok(t) => {
                    if t.toks != bt.toks {
                        ctx.violation("tokens", &witness(&cfg, &s), json!({"one_chunk_default": bt.toks, "this": t.toks}));
                        continue;
                    }
                    if !ee && t.errors != bt.errors {
                        // parse errors are only compared under identical options
                        ctx.violation("errors", &witness(&cfg, &s), json!({"one_chunk": format!("{:?}", bt.errors), "this": format!("{:?}", t.errors)}));
                    }
                },
            }
            if let Ok(t) = guarded(|| run_xml_tree(&cfg, &s, true)) {
                let sig = tree_sig(&t);
                if sig != bsig {
                    ctx.violation("tree", &witness(&cfg, &s), json!({"one_chunk_default": bsig, "this": sig}));
                }
            }
        }
    }
    // metamorphic: every line-break form is a single LF on every path
    if input.contains('\n') && !input.contains('\r') {
        for rep in ["\r", "\r\n"] {
            let v = input.replace('\n', rep);
            for s in chunkings(&v, 1.min(max_cuts), 0) {
                st.evals.fetch_add(1, Ordering::Relaxed);
                if let Ok(t) = guarded(|| run_xml_tree(&dcfg, &s, true)) {
                    let sig = tree_sig(&t);
                    if sig != bsig {
                        ctx.violation("newline-normalisation", &witness(&dcfg, &s), json!({"with_lf": bsig, "this": sig, "lf_input": input}));
                    }
                }
            }
        }
    }
    // metamorphic: NUL is U+FFFD on every path
    if input.contains('\0') {
        let v = input.replace('\0', "\u{fffd}");
        st.evals.fetch_add(1, Ordering::Relaxed);
        if let Ok(t) = guarded(|| run_xml_tree(&dcfg, &[Feed::Chunk(v.clone())], true)) {
            let sig = tree_sig(&t);
            if sig != bsig {
                ctx.violation("nul-replacement", &witness(&dcfg, &one), json!({"with_nul": bsig, "with_fffd": sig, "fffd_input": v}));
            }
        }
    }
}

pub fn corpus(tier: Tier) -> Vec<String> {
    let lex = xml_lexemes();
    let ws = control_witnesses();
    let mut v = vec![];
    for w in &ws {
        for a in &lex {
            for cl in ["", ">", "\"'>-->]]>?>"] {
                v.push(format!("{w}{a}{cl}"));
            }
            if tier == Tier::Thorough {
                for b in &lex {
                    v.push(format!("{w}{a}{b}>"));
                }
            }
        }
    }
    for s in [
        "<a>&\rx</a>", "<a>&a\r\n</a>", "<a>&amp;\r\n&lt;\r</a>", "<a b='&\r\n'/>", "<a b=\"x&amp\r\">", "<a>\0</a>", "<a b='\0'/>", "<!--\0-->", "<?p \0?>",
        "<a\0b>", "<a \0='1'>", "<a>x\ry\r\nz</a>", "<?pi x\r\ny?>", "<!--x\r\ny-->", "<a b='x\ry\r\nz'/>", "<a b=x\r>", "<!DOCTYPE a\r\nPUBLIC 'x\ry'>",
        "<![CDATA[x\r\ny\0]]>", "<a><![CDATA[x\ry]]></a>", "a\u{feff}b", "<a>\u{feff}</a>", "<a b='&amp=1'/>", "<a b='&ampx'/>", "<a b=\"&lt=\r\n\"/>", "<a>&amp=1</a>", "<a b='&amp\r\n=1'/>", "<a b=&amp=1 c='d'/>", "&#10;\r\n&#10;", "<a>&#\r\n;</a>", "<a>&#x\r;</a>", "<a>&#1\r\n</a>",
    ] {
        v.push(s.to_string());
    }
    v.extend(keyword_prefix_corpus());
    // every string of <= 4 symbols over the line-break alphabet inside every run-consuming construct
    // (a flag set by one character and consumed by a later one: CR .. LF with text or a reference between)
    for (pre, post) in [("<a>", "</a>"), ("<a b='", "'/>"), ("<a b=\"", "\"/>"), ("<a b=", ">"), ("<!--", "-->"), ("<?p ", "?>"), ("<a><![CDATA[", "]]></a>"), ("<!DOCTYPE a SYSTEM '", "'>"), ("<!DOCTYPE a PUBLIC \"", "\">"), ("<", ">"), ("<a ", "='1'/>")] {
        for t in crate::c03::small_strings(&["\r", "\n", "x", "&amp;", "\0"], 4) {
            v.push(format!("{pre}{t}{post}"));
        }
    }
    v.sort();
    v.dedup();
    v
}

/// keyword look-ahead cut short: every proper prefix of every keyword the tokenizers `eat`, at end of
/// input, before a mismatching character and before '>' (parked look-ahead text must neither be
/// lost nor reordered however the prefix itself is chunked)
pub fn keyword_prefix_corpus() -> Vec<String> {
    let mut v = vec![];
    for (lead, kws) in [("<!", vec!["--", "[CDATA[", "DOCTYPE", "doctype", "DocType"]), ("<!DOCTYPE a ", vec!["PUBLIC", "SYSTEM", "public", "sYsTeM"])] {
        for kw in kws {
            let n = kw.chars().count();
            for k in 1..=n {
                let pre: String = kw.chars().take(k).collect();
                for before in ["", "<a>x"] {
                    for after in ["", "x", ">", "x>", " 'i'>y"] {
                        if k == n && after.is_empty() && before.is_empty() {
                            continue;
                        }
                        v.push(format!("{before}{lead}{pre}{after}"));
                    }
                }
            }
        }
    }
    v
}

pub fn main(ctx: &Ctx) -> ! {
    let st = Stats { evals: AtomicU64::new(0), outcomes: Mutex::new(BTreeSet::new()) };
    let (max_cuts, full) = ctx.tier.pick((2, 6), (3, 11));
    let c = corpus(ctx.tier);
    c.par_iter().for_each(|input| {
        let mut local = BTreeSet::new();
        let n = input.chars().count();
        check_input(ctx, &st, input, if n > 28 { 1 } else { max_cuts }, full, &mut local);
        st.outcomes.lock().unwrap().extend(local);
    });
    // BOM: dropped only as the first character of the stream
    // (a second U+FEFF where it is content: in text, in an attribute value, right after an element the tree
    // builder pauses on, at the start of any later chunk)
    for input in [
        "\u{feff}<a/>", "\u{feff}", "\u{feff}\u{feff}<a>x</a>", "<a>\u{feff}</a>", "x\u{feff}", "\u{feff}<a>x\u{feff}y</a>", "\u{feff}<a>\u{feff}</a>",
        "\u{feff}<a b='\u{feff}'/>", "\u{feff}<a><script/>\u{feff}y</a>", "<a><script/>\u{feff}y</a>", "\u{feff}<a>\u{feff}\u{feff}</a>",
    ] {
        let rest = input.strip_prefix('\u{feff}').unwrap_or(input);
        let want = tree_sig(&run_xml_tree(&XmlCfg { discard_bom: false, ..Default::default() }, &[Feed::Chunk(rest.to_string())], true));
        for s in chunkings(input, 2, 8) {
            st.evals.fetch_add(1, Ordering::Relaxed);
            let got = tree_sig(&run_xml_tree(&XmlCfg::default(), &s, true));
            if got != want {
                ctx.violation("bom", &witness(&XmlCfg::default(), &s), json!({"want": want, "got": got}));
            }
        }
    }
    ctx.assume("no XML5 reference model: the oracle is the one-chunk default-options run, plus absolute rules (no CR / NUL delivered) and metamorphic variants (LF <-> CR <-> CRLF, NUL <-> U+FFFD)");
    ctx.assume("corpus: shortest witness of every xml tokenizer control state x every lexeme of a 41-symbol alphabet x 3 closers, plus hand-listed strings around character references, CDATA, PI, DOCTYPE");
    ctx.finish(
        "fault_enumeration",
        json!({
            "evaluations": st.evals.load(Ordering::Relaxed),
            "distinct_nontrivial": st.outcomes.lock().unwrap().len(),
            "inputs": c.len(),
            "rule": format!("every corpus input under every schedule with <= {max_cuts} cuts (all chunkings up to {full} chars) x {{default, exact_errors, discard_bom=false}}: tokens and tree equal to the one-chunk default run; distinct_nontrivial = distinct baseline trees"),
            "exhaustive": true,
            "samples": ["<a>&\\rx</a>", "<a b='&amp | \\r\\n'/>", "<a>\\0</a> vs <a>\\ufffd</a>"],
        }),
    )
}

pub fn replay(ctx: &Ctx, v: &serde_json::Value) {
    let w = v["witness"].as_str().unwrap_or("");
    let (_cfg, sched) = parse_witness(w);
    let input: String = sched.iter().map(|f| if let Feed::Chunk(s) = f { s.as_str() } else { "" }).collect();
    let st = Stats { evals: AtomicU64::new(0), outcomes: Mutex::new(BTreeSet::new()) };
    let mut local = BTreeSet::new();
    check_input(ctx, &st, &input, 2, 8, &mut local);
    println!("replay: {}", if ctx.violations() == 0 { "passes" } else { "FAILS" });
}
