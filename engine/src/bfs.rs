//! Deterministic, level-synchronous explicit-state search where a state is
//! stored as the shortest history that reaches it (live objects cannot be
//! cloned, so a transition re-executes history+symbol on fresh real objects).
use crate::common::*;
use rayon::prelude::*;
use std::time::Instant;

pub type Hist = Vec<u16>;

pub enum Step {
    /// symbol not enabled here (bound reached, precondition false)
    Disabled,
    /// oracle failed; the successor is not explored further
    Violation,
    /// successor state with its canonical digest
    Next(u128),
}

pub struct BfsOut {
    pub states: u64,
    pub transitions: u64,
    pub max_depth: usize,
    /// every state at depth < complete_depth was expanded with every symbol (a state or time cap stops the search
    /// in the middle of a level; the levels before it are complete)
    pub complete_depth: usize,
    pub closed: bool,
    pub capped_by: Option<String>,
    pub deepest: Hist,
    pub level_sizes: Vec<u64>,
    pub violations: u64,
    /// per symbol: how many transitions it labelled (0 = the symbol was never enabled: a dead part of the alphabet)
    pub symbol_uses: Vec<u64>,
}

pub struct BfsCfg {
    pub max_depth: usize,
    pub max_states: u64,
    pub max_secs: f64,
}

/// Record `h` as the witness of `k` unless a witness that is shorter, or equally long and lexicographically
/// smaller, is already recorded. `step` runs in parallel, so "first one in wins" would make the chosen witness
/// (and every job that starts from it) depend on thread timing; the minimum does not.
pub fn keep_min_witness<K: Ord>(m: &mut std::collections::BTreeMap<K, Hist>, k: K, h: Hist) {
    match m.get(&k) {
        Some(old) if (old.len(), &old[..]) <= (h.len(), &h[..]) => {},
        _ => {
            m.insert(k, h);
        },
    }
}

/// `step(history, sym)` must be a pure function of its arguments.
/// `on_state(history)` is called once for every newly discovered state
/// (sequentially, in deterministic order).
pub fn bfs<F, G>(
    roots: Vec<(Hist, u128)>,
    nsym: usize,
    cfg: &BfsCfg,
    step: F,
    mut on_state: G,
) -> BfsOut
where
    F: Fn(&[u16], u16) -> Step + Sync,
    G: FnMut(&[u16], usize),
{
    let t0 = Instant::now();
    let seen = DigestSet::new();
    let mut frontier: Vec<Hist> = vec![];
    let mut out = BfsOut {
        states: 0,
        transitions: 0,
        max_depth: 0,
        complete_depth: 0,
        closed: false,
        capped_by: None,
        deepest: vec![],
        level_sizes: vec![],
        violations: 0,
        symbol_uses: vec![0; nsym],
    };
    for (h, k) in roots {
        if seen.insert(k) {
            out.states += 1;
            on_state(&h, 0);
            frontier.push(h);
        }
    }
    let mut depth = 0usize;
    out.level_sizes.push(frontier.len() as u64);
    'outer: while !frontier.is_empty() {
        if depth >= cfg.max_depth {
            out.capped_by = Some(format!("max_depth={}", cfg.max_depth));
            break;
        }
        let mut next: Vec<Hist> = vec![];
        for chunk in frontier.chunks(4096) {
            if t0.elapsed().as_secs_f64() > cfg.max_secs {
                out.capped_by = Some(format!("max_secs={}", cfg.max_secs));
                break 'outer;
            }
            if out.states > cfg.max_states {
                out.capped_by = Some(format!("max_states={}", cfg.max_states));
                break 'outer;
            }
            let res: Vec<Vec<Step>> = chunk
                .par_iter()
                .map(|h| (0..nsym as u16).map(|s| step(h, s)).collect())
                .collect();
            for (h, rs) in chunk.iter().zip(res) {
                for (s, r) in rs.into_iter().enumerate() {
                    match r {
                        Step::Disabled => {},
                        Step::Violation => {
                            out.transitions += 1;
                            out.violations += 1;
                            out.symbol_uses[s] += 1;
                        },
                        Step::Next(k) => {
                            out.transitions += 1;
                            out.symbol_uses[s] += 1;
                            if seen.insert(k) {
                                let mut nh = h.clone();
                                nh.push(s as u16);
                                out.states += 1;
                                on_state(&nh, depth + 1);
                                next.push(nh);
                            }
                        },
                    }
                }
            }
        }
        depth += 1;
        out.complete_depth = depth;
        if !next.is_empty() {
            out.max_depth = depth;
            out.deepest = next[next.len() - 1].clone();
            out.level_sizes.push(next.len() as u64);
        }
        frontier = next;
    }
    if out.capped_by.is_none() {
        out.closed = true;
    }
    out
}
