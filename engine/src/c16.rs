//! C16 (XML namespaces by lexical scope, no attribute lost) and C17 (XML
//! serializer round trip) over exhaustively generated namespace shapes.
use crate::common::*;
use crate::dom::*;
use crate::tokh::Feed;
use crate::xmlh::*;
use rayon::prelude::*;
use serde_json::json;
use std::collections::{BTreeMap, BTreeSet};
use std::sync::atomic::{AtomicU64, Ordering};
use std::sync::Mutex;

pub const XML_NS: &str = "http://www.w3.org/XML/1998/namespace";
pub const XMLNS_NS: &str = "http://www.w3.org/2000/xmlns/";

#[derive(Clone, Debug, PartialEq, Eq, Hash)]
pub enum Item {
    /// xmlns (None) or xmlns:p declaration with value
    Decl(Option<&'static str>, &'static str),
    /// attribute (prefix, local, value)
    Attr(Option<&'static str>, &'static str, &'static str),
}

#[derive(Clone, Debug)]
pub struct El {
    pub prefix: Option<&'static str>,
    pub local: &'static str,
    pub items: Vec<Item>,
    pub children: Vec<Node>,
    /// 0 start..end, 1 empty tag, 2 short end tag, 4 unclosed (EOF); (3 = closed by the parent's end tag)
    pub form: u8,
}
#[derive(Clone, Debug)]
pub enum Node {
    El(El),
    Text(&'static str),
}

pub fn decls() -> Vec<Item> {
    vec![
        Item::Decl(None, "u1"),
        Item::Decl(None, ""),
        Item::Decl(Some("p"), "u1"),
        Item::Decl(Some("p"), "u2"),
        Item::Decl(Some("p"), ""),
        Item::Decl(Some("q"), "u1"),
        Item::Decl(Some("xml"), XML_NS),
        Item::Decl(Some("xml"), "u9"),
        Item::Decl(Some("xml"), ""),
        // the reserved namespace names under an ordinary prefix (this parser accepts the XML one)
        Item::Decl(Some("q"), XML_NS),
        // declarations the parser must refuse (and then ignore): the xmlns namespace name under any prefix or as
        // the default namespace, and the xmlns prefix itself
        Item::Decl(Some("p"), XMLNS_NS),
        Item::Decl(None, XMLNS_NS),
        Item::Decl(Some("xmlns"), "u1"),
    ]
}
pub fn attrs() -> Vec<Item> {
    vec![
        Item::Attr(None, "x", "1"),
        Item::Attr(Some("p"), "x", "2"),
        Item::Attr(Some("q"), "x", "3"),
        Item::Attr(Some("xml"), "lang", "4"),
        Item::Attr(Some("z"), "x", "5"),
        Item::Attr(Some("p"), "xmlns", "6"),
        Item::Attr(Some("u"), "y", "7"),
        // same expanded name as xml:lang when q is bound to the XML namespace
        Item::Attr(Some("q"), "lang", "8"),
    ]
}

fn subsets<T: Clone>(v: &[T], max: usize, ok: &dyn Fn(&[T]) -> bool) -> Vec<Vec<T>> {
    let mut out = vec![vec![]];
    for i in 0..v.len() {
        let a = vec![v[i].clone()];
        if ok(&a) {
            out.push(a);
        }
        if max >= 2 {
            for j in i + 1..v.len() {
                let b = vec![v[i].clone(), v[j].clone()];
                if ok(&b) {
                    out.push(b);
                }
                if max >= 3 {
                    for k in j + 1..v.len() {
                        let c = vec![v[i].clone(), v[j].clone(), v[k].clone()];
                        if ok(&c) {
                            out.push(c);
                        }
                    }
                }
            }
        }
    }
    out
}
fn distinct_decl_targets(d: &[Item]) -> bool {
    let mut seen = BTreeSet::new();
    d.iter().all(|i| if let Item::Decl(p, _) = i { seen.insert(*p) } else { true })
}
fn permutations<T: Clone>(v: &[T]) -> Vec<Vec<T>> {
    if v.len() <= 1 {
        return vec![v.to_vec()];
    }
    let mut out = vec![];
    for i in 0..v.len() {
        let mut rest = v.to_vec();
        let x = rest.remove(i);
        for mut p in permutations(&rest) {
            p.insert(0, x.clone());
            out.push(p);
        }
    }
    out
}

fn qn(p: Option<&str>, l: &str) -> String {
    match p {
        Some(p) => format!("{p}:{l}"),
        None => l.to_string(),
    }
}

pub fn render_tag_items(items: &[Item]) -> String {
    let mut s = String::new();
    for it in items {
        match it {
            Item::Decl(None, v) => s.push_str(&format!(" xmlns=\"{v}\"")),
            Item::Decl(Some(p), v) => s.push_str(&format!(" xmlns:{p}=\"{v}\"")),
            Item::Attr(p, l, v) => s.push_str(&format!(" {}=\"{v}\"", qn(*p, l))),
        }
    }
    s
}

pub fn render(n: &Node, out: &mut String) {
    match n {
        Node::Text(t) => out.push_str(t),
        Node::El(e) => {
            out.push('<');
            out.push_str(&qn(e.prefix, e.local));
            out.push_str(&render_tag_items(&e.items));
            if e.form == 1 {
                out.push_str("/>");
                return;
            }
            out.push('>');
            for c in &e.children {
                render(c, out);
            }
            match e.form {
                0 => out.push_str(&format!("</{}>", qn(e.prefix, e.local))),
                2 => out.push_str("</>"),
                _ => {},
            }
        },
    }
}

// ---------------------------------------------------------------- R-ns

#[derive(Clone, Debug, PartialEq)]
pub struct ExpAttr {
    pub ns: String,
    pub prefix: Option<String>,
    pub local: String,
    pub value: String,
    /// an earlier attribute of the same tag has the same expanded name
    pub droppable: bool,
}
#[derive(Clone, Debug)]
pub struct ExpEl {
    pub depth: usize,
    pub ns: String,
    pub prefix: Option<String>,
    pub local: String,
    pub attrs: Vec<ExpAttr>,
}

type Scope = Vec<BTreeMap<Option<String>, Option<String>>>;

fn base_scope() -> Scope {
    let mut m = BTreeMap::new();
    m.insert(None, None);
    m.insert(Some("xml".to_string()), Some(XML_NS.to_string()));
    m.insert(Some("xmlns".to_string()), Some(XMLNS_NS.to_string()));
    vec![m]
}
fn lookup(sc: &Scope, p: &Option<String>) -> String {
    for m in sc.iter().rev() {
        if let Some(v) = m.get(p) {
            return v.clone().unwrap_or_default();
        }
    }
    String::new() // unbound prefix: no namespace (+ parse error)
}

pub fn expected(n: &Node, sc: &mut Scope, depth: usize, out: &mut Vec<ExpEl>) {
    let Node::El(e) = n else { return };
    let mut own = BTreeMap::new();
    for it in &e.items {
        if let Item::Decl(p, v) = it {
            let key = p.map(|s| s.to_string());
            // xml / xmlns are fixed; the xmlns URI cannot be declared
            if *v == XMLNS_NS {
                continue;
            }
            if *p == Some("xml") {
                continue; // either the identity declaration or an error: no effect
            }
            if *p == Some("xmlns") {
                continue;
            }
            own.entry(key).or_insert(if v.is_empty() { None } else { Some(v.to_string()) });
        }
    }
    sc.push(own);
    let mut attrs: Vec<ExpAttr> = vec![];
    for it in &e.items {
        if let Item::Attr(p, l, v) = it {
            let prefix = p.map(|s| s.to_string());
            let ns = if prefix.is_some() { lookup(sc, &prefix) } else { String::new() };
            let droppable = attrs.iter().any(|a| a.ns == ns && a.local == *l);
            attrs.push(ExpAttr { ns, prefix, local: l.to_string(), value: v.to_string(), droppable });
        }
    }
    let prefix = e.prefix.map(|s| s.to_string());
    out.push(ExpEl { depth, ns: lookup(sc, &prefix), prefix, local: e.local.to_string(), attrs });
    for c in &e.children {
        expected(c, sc, depth + 1, out);
    }
    sc.pop();
}

fn actual(d: &Dom, n: usize, depth: usize, out: &mut Vec<ExpEl>) {
    if let Kind::Element { ns, prefix, local, attrs, .. } = &d.nodes[n].kind {
        out.push(ExpEl {
            depth,
            ns: ns.clone(),
            prefix: prefix.clone(),
            local: local.clone(),
            attrs: attrs.iter().map(|a| ExpAttr { ns: a.ns.clone(), prefix: a.prefix.clone(), local: a.local.clone(), value: a.value.clone(), droppable: false }).collect(),
        });
        for &c in &d.nodes[n].children {
            actual(d, c, depth + 1, out);
        }
    } else {
        for &c in &d.nodes[n].children {
            actual(d, c, depth, out);
        }
    }
}

pub fn compare(exp: &[ExpEl], act: &[ExpEl]) -> Option<String> {
    if exp.len() != act.len() {
        return Some(format!("{} elements expected, {} built", exp.len(), act.len()));
    }
    for (i, (e, a)) in exp.iter().zip(act).enumerate() {
        if e.depth != a.depth || e.local != a.local || e.prefix != a.prefix {
            return Some(format!("element #{i}: expected {:?}:{} at depth {}, built {:?}:{} at depth {}", e.prefix, e.local, e.depth, a.prefix, a.local, a.depth));
        }
        if e.ns != a.ns {
            return Some(format!("element #{i} <{}>: namespace {:?}, lexical scope says {:?}", qn(e.prefix.as_deref(), &e.local), a.ns, e.ns));
        }
        // built attributes must be a subsequence of the expected ones; only droppable ones may be missing
        let mut k = 0;
        for ea in &e.attrs {
            let hit = a.attrs.get(k).map(|x| x.prefix == ea.prefix && x.local == ea.local && x.value == ea.value).unwrap_or(false);
            if hit {
                if a.attrs[k].ns != ea.ns {
                    return Some(format!("element #{i}: attribute {} has namespace {:?}, lexical scope says {:?}", qn(ea.prefix.as_deref(), &ea.local), a.attrs[k].ns, ea.ns));
                }
                k += 1;
            } else if !ea.droppable {
                return Some(format!("element #{i} <{}>: attribute {}={:?} was dropped although no earlier attribute has its expanded name ({:?},{})", qn(e.prefix.as_deref(), &e.local), qn(ea.prefix.as_deref(), &ea.local), ea.value, ea.ns, ea.local));
            }
        }
        if k != a.attrs.len() {
            return Some(format!("element #{i}: unexpected extra attribute {:?}", a.attrs.get(k)));
        }
    }
    None
}

fn probes() -> Vec<Node> {
    vec![
        Node::El(El { prefix: Some("p"), local: "b", items: vec![Item::Attr(Some("p"), "k", "8"), Item::Attr(Some("q"), "k", "9"), Item::Attr(None, "k", "0")], children: vec![], form: 1 }),
        Node::El(El { prefix: None, local: "b", items: vec![], children: vec![], form: 1 }),
        Node::El(El { prefix: Some("q"), local: "c", items: vec![], children: vec![Node::Text("t")], form: 0 }),
    ]
}

/// document: <r xmlns:z="uz"><m> T(probes inside) probes-after </m></r>, T as generated
pub fn document(t: El) -> Node {
    let mut t = t;
    if t.form != 1 {
        t.children.extend(probes());
    }
    // forms 5/6: T ends with a child that is still open when T is closed (by its own end tag / by
    // the parent's), so one end tag closes several elements and must end several scopes
    if t.form >= 5 {
        t.children.push(Node::El(El { prefix: None, local: "u", items: vec![], children: vec![probes()[0].clone()], form: 4 }));
        t.form = if t.form == 5 { 0 } else { 3 };
    }
    let form = t.form;
    let mut m_children = vec![Node::El(t)];
    let mut r_children = vec![];
    if form == 3 {
        // T is closed by </m>; what follows belongs to r
        r_children.extend(probes());
    } else if form != 4 {
        m_children.extend(probes());
    }
    // the wrapper is prefixed (z is never re-declared), so its end tag names the same element in every inner scope
    let m = El { prefix: Some("z"), local: "m", items: vec![], children: m_children, form: if form == 4 { 4 } else { 0 } };
    r_children.insert(0, Node::El(m));
    Node::El(El { prefix: None, local: "r", items: vec![Item::Decl(Some("z"), "uz")], children: r_children, form: if form == 4 { 4 } else { 0 } })
}

pub struct Stats {
    pub evals: AtomicU64,
    pub outcomes: Mutex<BTreeSet<u128>>,
}

pub fn check_doc(ctx: &Ctx, st: &Stats, doc: &Node, do_c16: bool, do_c17: bool, local: &mut BTreeSet<u128>) {
    let mut text = String::new();
    render(doc, &mut text);
    st.evals.fetch_add(1, Ordering::Relaxed);
    let cfg = XmlCfg { with_rcdom: do_c17, ..Default::default() };
    let sched = vec![Feed::Chunk(text.clone())];
    let o = match guarded(|| run_xml_tree(&cfg, &sched, true)) {
        Ok(o) => o,
        Err(p) => {
            ctx.violation_for("C04", "panic", &format!("xml {text}"), json!({"panic": p}));
            return;
        },
    };
    if do_c16 {
        let mut exp = vec![];
        expected(doc, &mut base_scope(), 0, &mut exp);
        let mut act = vec![];
        actual(&o.sink.dom.borrow(), 0, 0, &mut act);
        local.insert(digest(&format!("{exp:?}")));
        if let Some(m) = compare(&exp, &act) {
            ctx.violation("namespace", &format!("xml {text}"), json!({"message": m, "tree": o.sink.dom.borrow().render_doc()}));
        }
        if let Some(c) = o.sink.contract.borrow().first() {
            ctx.violation_for("C05", "contract", &format!("xml {text}"), json!({"message": c}));
        }
    }
    if do_c17 {
        roundtrip(ctx, st, &text, &o, local);
    }
}

/// parse -> xml5ever::serialize -> parse again: same tree
pub fn roundtrip(ctx: &Ctx, _st: &Stats, text: &str, first: &XTreeOut, local: &mut BTreeSet<u128>) {
    let rc = first.sink.rc.as_ref().unwrap();
    let mut buf = Vec::new();
    let h: markup5ever_rcdom::SerializableHandle = rc.document.clone().into();
    if let Err(p) = guarded(|| xml5ever::serialize::serialize(&mut buf, &h, Default::default()).unwrap()) {
        ctx.violation("panic", &format!("xml {text}"), json!({"panic": p}));
        return;
    }
    let Ok(ser) = String::from_utf8(buf) else {
        ctx.violation("invalid-utf8", &format!("xml {text}"), json!({}));
        return;
    };
    local.insert(digest(&ser));
    let second = match guarded(|| run_xml_tree(&XmlCfg::default(), &[Feed::Chunk(ser.clone())], true)) {
        Ok(s) => s,
        Err(p) => {
            ctx.violation("panic", &format!("xml {text}"), json!({"panic": p, "serialized": ser}));
            return;
        },
    };
    // doctype ids are outside the serializer API: blank them
    let norm = |d: &Dom| -> String {
        d.render_doc().lines().map(|l| if l.trim_start().starts_with("<!DOCTYPE") { l.split('"').take(2).collect::<Vec<_>>().join("\"") } else { l.to_string() }).collect::<Vec<_>>().join("\n")
    };
    let a = norm(&first.sink.dom.borrow());
    let b = norm(&second.sink.dom.borrow());
    if a != b {
        ctx.violation("roundtrip", &format!("xml {text}"), json!({"serialized": ser, "first_parse": a, "second_parse": b}));
    }
}

pub fn gen_job_a(tier: Tier) -> Vec<El> {
    // one tag with every declaration subset x attribute subset x order x form x name
    let ds = subsets(&decls(), tier.pick(2, 3), &distinct_decl_targets);
    let as_ = subsets(&attrs(), 3, &|_| true);
    let names: [(Option<&'static str>, &'static str); 4] = [(None, "a"), (Some("p"), "a"), (Some("q"), "a"), (None, "script")];
    let mut out = vec![];
    for d in &ds {
        for a in &as_ {
            let mut items = d.clone();
            items.extend(a.clone());
            let orders = if items.len() <= tier.pick(4, 5) { permutations(&items) } else { vec![items.clone(), items.iter().rev().cloned().collect()] };
            for ord in orders {
                for (ni, (p, l)) in names.iter().enumerate() {
                    for form in [0u8, 1, 2, 3, 4, 5, 6] {
                        if ni > 1 && form > 1 && tier == Tier::Quick && items_len_gt3(&ord) {
                            continue;
                        }
                        out.push(El { prefix: *p, local: l, items: ord.clone(), children: vec![], form });
                    }
                }
            }
        }
    }
    out
}

pub fn gen_job_b(tier: Tier) -> Vec<El> {
    // nesting / shadowing / un-declaring: outer O(decls) > inner I(decls, name, form) [> innermost]
    let ds = subsets(&decls(), 2, &distinct_decl_targets);
    let names: [(Option<&'static str>, &'static str); 3] = [(None, "a"), (Some("p"), "a"), (Some("q"), "a")];
    let mut out = vec![];
    for d1 in &ds {
        for (p1, l1) in names {
            for d2 in &ds {
                for (p2, l2) in names {
                    for form in [0u8, 1, 2, 4] {
                        let inner = El { prefix: p2, local: l2, items: d2.clone(), children: if form == 1 { vec![] } else { probes() }, form };
                        let mut ch = vec![Node::El(inner)];
                        if form != 4 {
                            ch.extend(probes());
                        }
                        out.push(El { prefix: p1, local: l1, items: d1.clone(), children: ch, form: if form == 4 { 4 } else { 0 } });
                        // the outer end tag closes u, the inner (declaring) element and the outer one; the
                        // end tag is looked up in the innermost scope, so skip inner declarations of the outer's own prefix
                        if form == 0 && !d2.iter().any(|it| matches!(it, Item::Decl(t, _) if *t == p1)) {
                            let mut ich = probes();
                            ich.push(Node::El(El { prefix: None, local: "u", items: vec![], children: vec![probes()[0].clone()], form: 4 }));
                            let inner = El { prefix: p2, local: l2, items: d2.clone(), children: ich, form: 4 };
                            out.push(El { prefix: p1, local: l1, items: d1.clone(), children: vec![Node::El(inner)], form: 0 });
                        }
                        if tier == Tier::Thorough && form == 0 && d2.len() <= 1 {
                            // third level re-declaring / un-declaring
                            for d3 in ds.iter().filter(|d| d.len() == 1) {
                                let innermost = El { prefix: Some("p"), local: "d", items: d3.clone(), children: probes(), form: 0 };
                                let inner = El { prefix: p2, local: l2, items: d2.clone(), children: vec![Node::El(innermost), probes()[0].clone()], form: 0 };
                                out.push(El { prefix: p1, local: l1, items: d1.clone(), children: vec![Node::El(inner), probes()[0].clone()], form: 0 });
                            }
                        }
                    }
                }
            }
        }
    }
    // bind / un-bind / re-bind chains on one prefix over 3 and 4 levels
    let choices: [Option<&'static str>; 4] = [None, Some("u1"), Some("u2"), Some("")];
    for target in [None, Some("p")] {
        for depth in [3usize, 4] {
            let total = choices.len().pow(depth as u32);
            for code in 0..total {
                let mut c = code;
                let mut levels = vec![];
                for _ in 0..depth {
                    levels.push(choices[c % 4]);
                    c /= 4;
                }
                for (ep, el) in [(None, "a"), (Some("p"), "a")] {
                    // build from the innermost level outwards
                    let mut node: Option<El> = None;
                    for (li, ch) in levels.iter().enumerate().rev() {
                        let mut items = vec![];
                        if let Some(v) = ch {
                            items.push(Item::Decl(target, v));
                        }
                        items.push(Item::Attr(Some("p"), "k", "1"));
                        let mut children = vec![];
                        if let Some(n) = node.take() {
                            children.push(Node::El(n));
                        }
                        children.push(probes()[li % 2].clone());
                        node = Some(El { prefix: ep, local: el, items, children, form: 0 });
                    }
                    out.push(node.unwrap());
                }
            }
        }
    }
    out
}

pub fn main(ctx: &Ctx, c17: bool) -> ! {
    let st = Stats { evals: AtomicU64::new(0), outcomes: Mutex::new(BTreeSet::new()) };
    let a = gen_job_a(ctx.tier);
    let b = gen_job_b(ctx.tier);
    let (na, nb) = (a.len(), b.len());
    a.into_par_iter().chain(b.into_par_iter()).for_each(|t| {
        let mut local = BTreeSet::new();
        // an unclosed form cannot be wrapped by a closed parent
        let doc = if t.children.is_empty() { document(t) } else { wrap(t) };
        check_doc(ctx, &st, &doc, !c17, c17, &mut local);
        st.outcomes.lock().unwrap().extend(local);
    });
    let mut nvals = 0;
    if c17 {
        nvals = value_sweep(ctx, &st, ctx.tier);
    }
    ctx.assume("names {a, p:a, q:a, script}; declarations subsets (<=2) of {xmlns=u1, xmlns='', xmlns:p=u1|u2|'', xmlns:q=u1, xmlns:xml=<xml uri>|u9}; attributes subsets of {x, p:x, q:x, xml:lang, z:x, p:xmlns, u:y, q:lang}; every order of the items of a tag; tag forms start..end, empty, short end tag, closed by the parent's end tag, unclosed at EOF, and end tags that close several open elements at once (declarations on the named, an intermediate or the innermost element); probes using every prefix inside and after the element");
    if c17 {
        ctx.assume("the first parse is the specification of the second (no model); doctype ids excluded; text/attribute/comment/PI strings over a 12-symbol alphabet up to length 3");
    } else {
        ctx.assume("R-ns: lexical scoping over the generated abstract tree; xmlns declarations are not attributes for the no-loss clause; an attribute may be missing only if an earlier attribute of the same tag has the same expanded name");
    }
    ctx.finish(
        "exploration",
        json!({
            "evaluations": st.evals.load(Ordering::Relaxed),
            "distinct_nontrivial": st.outcomes.lock().unwrap().len(),
            "single_tag_shapes": na,
            "nesting_shapes": nb,
            "value_strings": nvals,
            "rule": if c17 { "every generated namespace shape and every value string: parse -> xml5ever::serialize -> parse, the two model-DOM trees must be equal (names, prefixes, namespace URIs, attribute values, text, comments, PIs); distinct_nontrivial = distinct serializations" } else { "every generated document parsed by xml5ever into the monitored sink; every element and attribute must carry the namespace R-ns computes by lexical scope, in order, no attribute lost except after an earlier same-expanded-name attribute; distinct_nontrivial = distinct expected trees" },
            "exhaustive": true,
            "samples": ["<r xmlns:z=\"uz\"><m><p:a xmlns:p=\"u1\" p:x=\"2\" x=\"1\"><p:b p:k=\"8\" q:k=\"9\" k=\"0\"/>...</p:a>...</m></r>", "<a xmlns=\"u1\"><a xmlns=\"\"><b/></a><b/></a>"],
        }),
    )
}

/// C05 over the namespace corpus: the attribute lists the XML tree builder hands to the sink after
/// namespace resolution (no two attributes with the same expanded name), and the rest of the calling contract
pub fn contract_sweep(ctx: &Ctx) -> u64 {
    let a = gen_job_a(ctx.tier);
    let b = gen_job_b(ctx.tier);
    let n = AtomicU64::new(0);
    a.into_par_iter().chain(b.into_par_iter()).for_each(|t| {
        let doc = if t.children.is_empty() { document(t) } else { wrap(t) };
        let mut text = String::new();
        render(&doc, &mut text);
        n.fetch_add(1, Ordering::Relaxed);
        let sched = vec![Feed::Chunk(text.clone())];
        if let Ok(o) = guarded(|| run_xml_tree(&XmlCfg::default(), &sched, true)) {
            if let Some(c) = o.sink.contract.borrow().first() {
                ctx.violation("contract", &crate::c15::witness(&XmlCfg::default(), &sched), json!({"message": c, "job": "xml-namespaces"}));
            }
        }
    });
    n.load(Ordering::Relaxed)
}

fn items_len_gt3(v: &[Item]) -> bool {
    v.len() > 3
}

fn wrap(t: El) -> Node {
    let form = t.form;
    Node::El(El { prefix: None, local: "r", items: vec![Item::Decl(Some("z"), "uz")], children: vec![Node::El(t)], form: if form == 4 { 4 } else { 0 } })
}

/// C17: text / attribute / comment / PI values
fn value_sweep(ctx: &Ctx, st: &Stats, tier: Tier) -> usize {
    let sig = ["&amp;", "&lt;", ">", "\"", "'", "a", " ", "\n", "&#13;", "\u{e9}", "]]>", "&#9;", "\t", "&#10;", "&#133;"];
    let mut strs: Vec<String> = vec![];
    let maxlen = tier.pick(2, 3);
    let mut level = vec![String::new()];
    for _ in 0..maxlen {
        let mut next = vec![];
        for s in &level {
            for a in sig {
                next.push(format!("{s}{a}"));
            }
        }
        strs.extend(next.iter().cloned());
        level = next;
    }
    // every character U+0001..=U+02FF (C0, C1, Latin-1, first non-Latin blocks) and some from the other
    // planes as a literal, alone and between ordinary characters
    for cp in (1u32..=0x2FF).chain([0x2028, 0x2029, 0xFEFF, 0xFFFD, 0xFFFE, 0xFFFF, 0x10000, 0x10FFFF]) {
        if let Some(c) = char::from_u32(cp) {
            if matches!(c, '<' | '&') {
                continue; // markup; their escaped forms are in `sig`
            }
            strs.push(c.to_string());
            strs.push(format!("a{c}b"));
        }
    }
    let n = strs.len();
    strs.par_iter().for_each(|s| {
        let mut local = BTreeSet::new();
        let attr_dq = s.replace('"', "&quot;");
        let docs = [
            format!("<a>{s}</a>"),
            format!("<a b=\"{attr_dq}\"/>"),
            format!("<a><b>{s}</b>x{s}<c d=\"{attr_dq}\">{s}</c></a>"),
            format!("<p:a xmlns:p=\"u\" p:b=\"{attr_dq}\">{s}</p:a>"),
            // namespace names are attribute values too
            format!("<a xmlns=\"u{attr_dq}\"><b/></a>"),
            format!("<p:a xmlns:p=\"u{attr_dq}\" p:b=\"1\"><c p:d=\"2\"/></p:a>"),
            format!("<!--{}--><?pi {}?><a/>", s.replace("--", "- -").replace('>', "}"), s.replace("?>", "? >")),
        ];
        for d in docs {
            st.evals.fetch_add(1, Ordering::Relaxed);
            let cfg = XmlCfg { with_rcdom: true, ..Default::default() };
            if let Ok(o) = guarded(|| run_xml_tree(&cfg, &[Feed::Chunk(d.clone())], true)) {
                roundtrip(ctx, st, &d, &o, &mut local);
            }
        }
        st.outcomes.lock().unwrap().extend(local);
    });
    // comments and PIs
    for c in ["a", "-", "a-", "?", "a b", "<", "&amp;", "--", "-->x", "?>"] {
        for d in [format!("<a><!--{c}--></a>"), format!("<a><?t {c}?></a>"), format!("<!--{c}--><a/><?t {c}?>")] {
            st.evals.fetch_add(1, Ordering::Relaxed);
            let cfg = XmlCfg { with_rcdom: true, ..Default::default() };
            let mut local = BTreeSet::new();
            if let Ok(o) = guarded(|| run_xml_tree(&cfg, &[Feed::Chunk(d.clone())], true)) {
                roundtrip(ctx, st, &d, &o, &mut local);
            }
        }
    }
    n
}

pub fn replay(ctx: &Ctx, v: &serde_json::Value, c17: bool) {
    let w = v["witness"].as_str().unwrap_or("");
    let text = w.strip_prefix("xml ").unwrap_or(w);
    let st = Stats { evals: AtomicU64::new(0), outcomes: Mutex::new(BTreeSet::new()) };
    let mut local = BTreeSet::new();
    let cfg = XmlCfg { with_rcdom: true, ..Default::default() };
    let o = run_xml_tree(&cfg, &[Feed::Chunk(text.to_string())], true);
    println!("{}", o.sink.dom.borrow().render_doc());
    if c17 {
        roundtrip(ctx, &st, text, &o, &mut local);
    } else {
        println!("(C16 replay needs the abstract tree; the parsed tree is printed above, the expected namespaces are in the replay file)");
    }
    println!("replay: {}", if ctx.violations() == 0 { "passes" } else { "FAILS" });
}
