//! C11 / C12: exhaustive operation sequences over a pool of tendrils against a
//! Vec<u8> model. The same enumeration runs under the tracking allocator for
//! C12 (vfalloc binary) through the `Monitor` hooks.
use crate::common::*;
use rayon::prelude::*;
use serde_json::json;
use std::collections::BTreeSet;
use std::sync::atomic::{AtomicU64, Ordering};
use std::sync::Mutex;
use tendril::fmt;
use tendril::{Atomic, Atomicity, NonAtomic, SendTendril, SubtendrilError, Tendril};

pub trait Monitor: Sync {
    /// called before the first op of an execution
    fn begin(&self) {}
    /// real code is about to run / has returned
    fn enter(&self) {}
    fn leave(&self) {}
    /// invariant check after an op; Some(msg) = violation
    fn after_op(&self) -> Option<String> {
        None
    }
    /// all tendrils of the execution are dropped
    fn end(&self) -> Option<String> {
        None
    }
}
pub struct NoMonitor;
impl Monitor for NoMonitor {}

pub trait FmtX: fmt::Format + Sized + 'static {
    const NAME: &'static str;
    fn lits() -> &'static [&'static [u8]];
    fn push_lits() -> &'static [&'static [u8]];
    fn m_valid(b: &[u8]) -> bool;
    fn m_boundary(b: &[u8], i: usize) -> bool {
        i == 0 || i >= b.len() || (b[i] & 0xC0) != 0x80
    }
    fn m_push(m: &mut Vec<u8>, add: &[u8]) {
        m.extend_from_slice(add)
    }
    fn pop_front_char<A: Atomicity>(_t: &mut Tendril<Self, A>) -> Option<Option<char>> {
        None
    }
    fn m_pop_front_char(_m: &mut Vec<u8>) -> Option<char> {
        None
    }
    fn char_run<A: Atomicity>(_t: &mut Tendril<Self, A>) -> Option<Option<(Tendril<Self, A>, bool)>> {
        None
    }
    fn m_char_run(_m: &mut Vec<u8>) -> Option<(Vec<u8>, bool)> {
        None
    }
    fn push_char<A: Atomicity>(_t: &mut Tendril<Self, A>, _c: char) -> Option<Result<(), ()>> {
        None
    }
    fn m_push_char(_m: &mut Vec<u8>, _c: char) -> Result<(), ()> {
        Err(())
    }
    /// safe in-place mutation through DerefMut (forces copy-on-write)
    fn write_first<A: Atomicity>(_t: &mut Tendril<Self, A>) -> bool {
        false
    }
    fn extend_byte<A: Atomicity>(_t: &mut Tendril<Self, A>) -> bool {
        false
    }
}

fn classify(c: char) -> bool {
    c.is_ascii_lowercase()
}

fn utf8_pop(m: &mut Vec<u8>) -> Option<char> {
    let s = std::str::from_utf8(m).ok()?;
    let c = s.chars().next()?;
    m.drain(..c.len_utf8());
    Some(c)
}
fn byte_pop(m: &mut Vec<u8>) -> Option<char> {
    if m.is_empty() {
        None
    } else {
        Some(m.remove(0) as char)
    }
}
fn run_model(m: &mut Vec<u8>, chars: Vec<(usize, char)>) -> Option<(Vec<u8>, bool)> {
    let (_, first) = *chars.first()?;
    let class = classify(first);
    let idx = chars
        .iter()
        .find(|(_, c)| classify(*c) != class)
        .map(|x| x.0)
        .unwrap_or(m.len());
    let run: Vec<u8> = m.drain(..idx).collect();
    Some((run, class))
}

const L_A: &[u8] = b"a";
const L_8: &[u8] = b"abcdefgh";
const L_9: &[u8] = b"abcdefghi";
const L_17: &[u8] = b"ABCDEFGHIJKLMNOPQ";
const L_E: &[u8] = "a\u{e9}".as_bytes();
const L_EURO: &[u8] = "\u{20ac}uro\u{1F600}xy".as_bytes(); // 12 bytes
const L_BAD: &[u8] = &[0xC3];
const L_HI: &[u8] = &[0xE9];
const L_LEAD: &[u8] = &[0xED, 0xA0, 0x80];
const L_TRAIL: &[u8] = &[0xED, 0xB0, 0x80];
const L_LEAD9: &[u8] = &[b'a', b'b', b'c', b'd', b'e', b'f', 0xED, 0xA0, 0x80];
const L_PAIR: &[u8] = &[0xED, 0xA0, 0x80, 0xED, 0xB0, 0x80];

impl FmtX for fmt::Bytes {
    const NAME: &'static str = "Bytes";
    fn lits() -> &'static [&'static [u8]] {
        &[L_A, L_8, L_9, L_17, L_BAD]
    }
    fn push_lits() -> &'static [&'static [u8]] {
        &[L_A, L_9, L_HI]
    }
    fn m_valid(_: &[u8]) -> bool {
        true
    }
    fn m_boundary(_: &[u8], _: usize) -> bool {
        true
    }
    fn write_first<A: Atomicity>(t: &mut Tendril<Self, A>) -> bool {
        if t.len32() > 0 {
            t[0] = t[0].to_ascii_uppercase();
        }
        true
    }
    fn extend_byte<A: Atomicity>(t: &mut Tendril<Self, A>) -> bool {
        t.extend_with_byte(3, b'z');
        true
    }
}
impl FmtX for fmt::Latin1 {
    const NAME: &'static str = "Latin1";
    fn lits() -> &'static [&'static [u8]] {
        &[L_A, L_9, L_HI]
    }
    fn push_lits() -> &'static [&'static [u8]] {
        &[L_A, L_9, L_HI]
    }
    fn m_valid(_: &[u8]) -> bool {
        true
    }
    fn m_boundary(_: &[u8], _: usize) -> bool {
        true
    }
    fn pop_front_char<A: Atomicity>(t: &mut Tendril<Self, A>) -> Option<Option<char>> {
        Some(t.pop_front_char())
    }
    fn m_pop_front_char(m: &mut Vec<u8>) -> Option<char> {
        byte_pop(m)
    }
    fn char_run<A: Atomicity>(t: &mut Tendril<Self, A>) -> Option<Option<(Tendril<Self, A>, bool)>> {
        Some(t.pop_front_char_run(classify))
    }
    fn m_char_run(m: &mut Vec<u8>) -> Option<(Vec<u8>, bool)> {
        let ch = m.iter().enumerate().map(|(i, b)| (i, *b as char)).collect();
        run_model(m, ch)
    }
    fn push_char<A: Atomicity>(t: &mut Tendril<Self, A>, c: char) -> Option<Result<(), ()>> {
        Some(t.try_push_char(c))
    }
    fn m_push_char(m: &mut Vec<u8>, c: char) -> Result<(), ()> {
        if (c as u32) > 0xFF {
            return Err(());
        }
        m.push(c as u32 as u8);
        Ok(())
    }
}
impl FmtX for fmt::ASCII {
    const NAME: &'static str = "ASCII";
    fn lits() -> &'static [&'static [u8]] {
        &[L_A, L_9, L_HI]
    }
    fn push_lits() -> &'static [&'static [u8]] {
        &[L_A, L_9, L_HI]
    }
    fn m_valid(b: &[u8]) -> bool {
        b.iter().all(|x| *x < 0x80)
    }
    fn m_boundary(_: &[u8], _: usize) -> bool {
        true
    }
    fn pop_front_char<A: Atomicity>(t: &mut Tendril<Self, A>) -> Option<Option<char>> {
        Some(t.pop_front_char())
    }
    fn m_pop_front_char(m: &mut Vec<u8>) -> Option<char> {
        byte_pop(m)
    }
    fn char_run<A: Atomicity>(t: &mut Tendril<Self, A>) -> Option<Option<(Tendril<Self, A>, bool)>> {
        Some(t.pop_front_char_run(classify))
    }
    fn m_char_run(m: &mut Vec<u8>) -> Option<(Vec<u8>, bool)> {
        let ch = m.iter().enumerate().map(|(i, b)| (i, *b as char)).collect();
        run_model(m, ch)
    }
    fn push_char<A: Atomicity>(t: &mut Tendril<Self, A>, c: char) -> Option<Result<(), ()>> {
        Some(t.try_push_char(c))
    }
    fn m_push_char(m: &mut Vec<u8>, c: char) -> Result<(), ()> {
        if (c as u32) > 0x7F {
            return Err(());
        }
        m.push(c as u32 as u8);
        Ok(())
    }
}
impl FmtX for fmt::UTF8 {
    const NAME: &'static str = "UTF8";
    fn lits() -> &'static [&'static [u8]] {
        &[L_A, L_8, L_9, L_17, L_E, L_EURO, L_BAD]
    }
    fn push_lits() -> &'static [&'static [u8]] {
        &[L_A, L_9, L_E, L_BAD]
    }
    fn m_valid(b: &[u8]) -> bool {
        std::str::from_utf8(b).is_ok()
    }
    fn pop_front_char<A: Atomicity>(t: &mut Tendril<Self, A>) -> Option<Option<char>> {
        Some(t.pop_front_char())
    }
    fn m_pop_front_char(m: &mut Vec<u8>) -> Option<char> {
        utf8_pop(m)
    }
    fn char_run<A: Atomicity>(t: &mut Tendril<Self, A>) -> Option<Option<(Tendril<Self, A>, bool)>> {
        Some(t.pop_front_char_run(classify))
    }
    fn m_char_run(m: &mut Vec<u8>) -> Option<(Vec<u8>, bool)> {
        let ch = std::str::from_utf8(m).unwrap().char_indices().collect();
        run_model(m, ch)
    }
    fn push_char<A: Atomicity>(t: &mut Tendril<Self, A>, c: char) -> Option<Result<(), ()>> {
        t.push_char(c);
        Some(Ok(()))
    }
    fn m_push_char(m: &mut Vec<u8>, c: char) -> Result<(), ()> {
        let mut b = [0u8; 4];
        m.extend_from_slice(c.encode_utf8(&mut b).as_bytes());
        Ok(())
    }
    fn write_first<A: Atomicity>(t: &mut Tendril<Self, A>) -> bool {
        if t.len32() > 0 {
            let s: &mut str = &mut *t;
            if s.is_char_boundary(1) {
                s[..1].make_ascii_uppercase();
            }
        }
        true
    }
}
fn wtf8_valid(b: &[u8]) -> bool {
    // generalized UTF-8 (surrogates allowed) without a lead surrogate
    // directly followed by a trail surrogate
    let mut i = 0;
    let mut prev_lead = false;
    while i < b.len() {
        let x = b[i];
        let n = if x < 0x80 {
            1
        } else if (0xC2..=0xDF).contains(&x) {
            2
        } else if (0xE0..=0xEF).contains(&x) {
            3
        } else if (0xF0..=0xF4).contains(&x) {
            4
        } else {
            return false;
        };
        if i + n > b.len() {
            return false;
        }
        for k in 1..n {
            if b[i + k] & 0xC0 != 0x80 {
                return false;
            }
        }
        let mut lead = false;
        if n == 3 {
            if x == 0xE0 && b[i + 1] < 0xA0 {
                return false;
            }
            if x == 0xED && b[i + 1] >= 0xA0 {
                if b[i + 1] < 0xB0 {
                    lead = true;
                } else if prev_lead {
                    return false;
                }
            }
        }
        if n == 4 {
            if x == 0xF0 && b[i + 1] < 0x90 {
                return false;
            }
            if x == 0xF4 && b[i + 1] > 0x8F {
                return false;
            }
        }
        prev_lead = lead;
        i += n;
    }
    true
}
impl FmtX for fmt::WTF8 {
    const NAME: &'static str = "WTF8";
    fn lits() -> &'static [&'static [u8]] {
        &[L_A, L_9, L_LEAD, L_TRAIL, L_LEAD9, L_PAIR]
    }
    fn push_lits() -> &'static [&'static [u8]] {
        &[L_A, L_LEAD, L_TRAIL, L_9]
    }
    fn m_valid(b: &[u8]) -> bool {
        wtf8_valid(b)
    }
    fn m_push(m: &mut Vec<u8>, add: &[u8]) {
        let n = m.len();
        if n >= 3 && add.len() >= 3 && m[n - 3] == 0xED && (0xA0..0xB0).contains(&m[n - 2])
            && add[0] == 0xED && (0xB0..0xC0).contains(&add[1])
        {
            let hi = (((m[n - 2] & 0x0F) as u32) << 6) | (m[n - 1] & 0x3F) as u32;
            let lo = (((add[1] & 0x0F) as u32) << 6) | (add[2] & 0x3F) as u32;
            let c = char::from_u32(0x10000 + (hi << 10) + lo).unwrap();
            m.truncate(n - 3);
            let mut b = [0u8; 4];
            m.extend_from_slice(c.encode_utf8(&mut b).as_bytes());
            m.extend_from_slice(&add[3..]);
        } else {
            m.extend_from_slice(add);
        }
    }
}

const SUBS: &[(u32, u32)] = &[(0, 1), (1, 1), (0, 9), (1, 9), (2, 10), (8, 9), (1, 0), (3, 40)];
const POPS: &[u32] = &[1, 2, 9, 40];
const CHARS: &[char] = &['b', '\u{e9}', '\u{1F600}'];

#[derive(Clone, Copy, Debug, PartialEq, Eq)]
pub enum Op {
    Make(u8, u8),
    PushBytes(u8, u8),
    PushTendril(u8, u8),
    CloneTo(u8, u8),
    Sub(u8, u8),
    SubPanic(u8, u8),
    PopFront(u8, u8),
    PopBack(u8, u8),
    PopFrontPanic(u8, u8),
    PopFrontChar(u8),
    CharRun(u8),
    Clear(u8),
    Reserve(u8),
    DropSlot(u8),
    Send(u8),
    PushChar(u8, u8),
    WriteFirst(u8),
    ExtendByte(u8),
    Swap01,
    /// a tendril of exactly n ASCII bytes (length ladder; prefix-only)
    MakeN(u8, u32),
}

/// lengths on and next to the inline limit and every power of two (buffer growth boundaries)
pub fn ladder(thorough: bool) -> Vec<u32> {
    let mut v: Vec<u32> = (0..=40).collect();
    for k in 4..=if thorough { 16 } else { 11 } {
        let p = 1u32 << k;
        for d in [-13i64, -12, -9, -8, -1, 0, 1, 4] {
            v.push((p as i64 + d) as u32);
        }
    }
    v.sort();
    v.dedup();
    v
}

pub fn ladder_prefixes(n: u32) -> Vec<Vec<Op>> {
    vec![
        vec![Op::MakeN(0, n)],
        vec![Op::MakeN(0, n), Op::CloneTo(0, 1)],
        vec![Op::MakeN(0, n), Op::PopFront(0, 0)],
        vec![Op::MakeN(0, n), Op::Reserve(0), Op::CloneTo(0, 1)],
    ]
}

pub fn alphabet<F: FmtX>() -> Vec<Op> {
    let mut v = vec![];
    for l in 0..F::lits().len() as u8 {
        v.push(Op::Make(0, l));
    }
    for l in 0..F::lits().len() as u8 {
        v.push(Op::Make(1, l));
    }
    for s in 0..2u8 {
        v.push(Op::CloneTo(s, 2));
        v.push(Op::CloneTo(s, 1 - s));
    }
    for s in 0..2u8 {
        for i in 0..SUBS.len() as u8 {
            v.push(Op::Sub(s, i));
        }
    }
    v.push(Op::SubPanic(0, 3));
    v.push(Op::SubPanic(0, 7));
    for s in 0..2u8 {
        for i in 0..POPS.len() as u8 {
            v.push(Op::PopFront(s, i));
            v.push(Op::PopBack(s, i));
        }
    }
    v.push(Op::PopFrontPanic(0, 0));
    v.push(Op::PopFrontPanic(0, 3));
    for s in 0..2u8 {
        for l in 0..F::push_lits().len() as u8 {
            v.push(Op::PushBytes(s, l));
        }
        v.push(Op::PushTendril(s, 1 - s));
        v.push(Op::PushTendril(s, 2));
        v.push(Op::PopFrontChar(s));
        v.push(Op::CharRun(s));
        v.push(Op::Clear(s));
        v.push(Op::Reserve(s));
        v.push(Op::DropSlot(s));
        v.push(Op::Send(s));
        for c in 0..CHARS.len() as u8 {
            v.push(Op::PushChar(s, c));
        }
        v.push(Op::WriteFirst(s));
        v.push(Op::ExtendByte(s));
    }
    v.push(Op::DropSlot(2));
    v.push(Op::PushTendril(2, 0));
    v.push(Op::Swap01);
    v
}

pub struct Pool<F: FmtX, A: Atomicity> {
    pub real: [Option<Tendril<F, A>>; 3],
    pub model: [Option<Vec<u8>>; 3],
}

pub enum Outcome {
    Disabled,
    Ok,
    Bad(String, String),
}

fn sub_model<F: FmtX>(m: &[u8], off: u32, len: u32) -> Result<Vec<u8>, SubtendrilError> {
    let l = m.len() as u32;
    if off > l || len > l - off {
        return Err(SubtendrilError::OutOfBounds);
    }
    let (a, b) = (off as usize, (off + len) as usize);
    if len > 0 && !(F::m_boundary(m, a) && F::m_boundary(m, b)) {
        return Err(SubtendrilError::ValidationFailed);
    }
    Ok(m[a..b].to_vec())
}

impl<F: FmtX, A: Atomicity> Pool<F, A> {
    pub fn new() -> Self {
        Pool {
            real: [None, None, None],
            model: [None, None, None],
        }
    }

    /// apply one op to both sides; compare the op's own result
    pub fn apply(&mut self, op: Op, mon: &dyn Monitor) -> Outcome {
        macro_rules! need {
            ($s:expr) => {
                if self.real[$s as usize].is_none() {
                    return Outcome::Disabled;
                }
            };
        }
        macro_rules! real {
            ($e:expr) => {{
                mon.enter();
                let r = guarded(|| $e);
                mon.leave();
                r
            }};
        }
        macro_rules! bad {
            ($k:expr, $($a:tt)*) => { return Outcome::Bad($k.to_string(), format!($($a)*)) };
        }
        match op {
            Op::Make(s, l) => {
                let lit = F::lits()[l as usize];
                let r = real!(Tendril::<F, A>::try_from_byte_slice(lit));
                let want = F::m_valid(lit);
                match r {
                    Err(p) => bad!("panic", "try_from_byte_slice panicked: {p}"),
                    Ok(Ok(t)) => {
                        if !want {
                            bad!("accepted-invalid", "try_from_byte_slice accepted {lit:?}");
                        }
                        mon.enter();
                        self.real[s as usize] = Some(t);
                        mon.leave();
                        self.model[s as usize] = Some(lit.to_vec());
                    },
                    Ok(Err(())) => {
                        if want {
                            bad!("rejected-valid", "try_from_byte_slice rejected {lit:?}");
                        }
                    },
                }
            },
            Op::MakeN(s, n) => {
                let lit: Vec<u8> = (0..n).map(|i| b'a' + (i % 23) as u8).collect();
                match real!(Tendril::<F, A>::try_from_byte_slice(&lit)) {
                    Err(p) => bad!("panic", "try_from_byte_slice({n} bytes) panicked: {p}"),
                    Ok(Ok(t)) => {
                        mon.enter();
                        self.real[s as usize] = Some(t);
                        mon.leave();
                        self.model[s as usize] = Some(lit);
                    },
                    Ok(Err(())) => bad!("rejected-valid", "try_from_byte_slice rejected {n} ASCII bytes"),
                }
            },
            Op::PushBytes(s, l) => {
                need!(s);
                let lit = F::push_lits()[l as usize];
                let t = self.real[s as usize].as_mut().unwrap();
                let r = real!(t.try_push_bytes(lit));
                let want = F::m_valid(lit);
                match r {
                    Err(p) => bad!("panic", "try_push_bytes panicked: {p}"),
                    Ok(Ok(())) => {
                        if !want {
                            bad!("accepted-invalid", "try_push_bytes accepted {lit:?}");
                        }
                        F::m_push(self.model[s as usize].as_mut().unwrap(), lit);
                    },
                    Ok(Err(())) => {
                        if want {
                            bad!("rejected-valid", "try_push_bytes rejected {lit:?}");
                        }
                    },
                }
            },
            Op::PushTendril(d, s) => {
                need!(d);
                need!(s);
                if d == s {
                    return Outcome::Disabled;
                }
                let (a, b) = if d < s {
                    let (x, y) = self.real.split_at_mut(s as usize);
                    (x[d as usize].as_mut().unwrap(), y[0].as_ref().unwrap())
                } else {
                    let (x, y) = self.real.split_at_mut(d as usize);
                    (y[0].as_mut().unwrap(), x[s as usize].as_ref().unwrap())
                };
                if let Err(p) = real!(a.push_tendril(b)) {
                    bad!("panic", "push_tendril panicked: {p}");
                }
                let add = self.model[s as usize].clone().unwrap();
                F::m_push(self.model[d as usize].as_mut().unwrap(), &add);
            },
            Op::CloneTo(s, d) => {
                need!(s);
                let t = self.real[s as usize].as_ref().unwrap();
                match real!(t.clone()) {
                    Err(p) => bad!("panic", "clone panicked: {p}"),
                    Ok(c) => {
                        mon.enter();
                        self.real[d as usize] = Some(c);
                        mon.leave();
                    },
                }
                self.model[d as usize] = self.model[s as usize].clone();
            },
            Op::Sub(s, i) | Op::SubPanic(s, i) => {
                need!(s);
                let (off, len) = SUBS[i as usize];
                let want = sub_model::<F>(self.model[s as usize].as_ref().unwrap(), off, len);
                let t = self.real[s as usize].as_ref().unwrap();
                let got = if let Op::Sub(..) = op {
                    match real!(t.try_subtendril(off, len)) {
                        Err(p) => bad!("panic", "try_subtendril({off},{len}) panicked: {p}"),
                        Ok(r) => r,
                    }
                } else {
                    match real!(t.subtendril(off, len)) {
                        Err(_) => Err(SubtendrilError::OutOfBounds),
                        Ok(r) => Ok(r),
                    }
                };
                match (want, got) {
                    (Ok(w), Ok(g)) => {
                        mon.enter();
                        self.real[2] = Some(g);
                        mon.leave();
                        self.model[2] = Some(w);
                    },
                    (Err(we), Err(ge)) => {
                        if let Op::Sub(..) = op {
                            if we != ge {
                                bad!("wrong-error", "try_subtendril({off},{len}): model {we:?} real {ge:?}");
                            }
                        }
                    },
                    (Ok(_), Err(e)) => bad!("rejected-valid", "subtendril({off},{len}) failed {e:?} but model allows it"),
                    (Err(e), Ok(_)) => bad!("accepted-invalid", "subtendril({off},{len}) succeeded but model says {e:?}"),
                }
            },
            Op::PopFront(s, i) | Op::PopBack(s, i) | Op::PopFrontPanic(s, i) => {
                need!(s);
                let n = POPS[i as usize];
                let m = self.model[s as usize].as_mut().unwrap();
                let l = m.len() as u32;
                let front = !matches!(op, Op::PopBack(..));
                let want: Result<(), SubtendrilError> = if n > l {
                    Err(SubtendrilError::OutOfBounds)
                } else {
                    let cut = if front { n as usize } else { (l - n) as usize };
                    if !F::m_boundary(m, cut) {
                        Err(SubtendrilError::ValidationFailed)
                    } else {
                        Ok(())
                    }
                };
                let t = self.real[s as usize].as_mut().unwrap();
                let got = match op {
                    Op::PopFront(..) => match real!(t.try_pop_front(n)) {
                        Err(p) => bad!("panic", "try_pop_front({n}) panicked: {p}"),
                        Ok(r) => r,
                    },
                    Op::PopBack(..) => match real!(t.try_pop_back(n)) {
                        Err(p) => bad!("panic", "try_pop_back({n}) panicked: {p}"),
                        Ok(r) => r,
                    },
                    _ => match real!(t.pop_front(n)) {
                        Err(_) => Err(want.err().unwrap_or(SubtendrilError::OutOfBounds)),
                        Ok(()) => Ok(()),
                    },
                };
                match (want, got) {
                    (Ok(()), Ok(())) => {
                        if front {
                            m.drain(..n as usize);
                        } else {
                            m.truncate((l - n) as usize);
                        }
                    },
                    (Err(we), Err(ge)) => {
                        if !matches!(op, Op::PopFrontPanic(..)) && we != ge {
                            bad!("wrong-error", "{op:?}: model {we:?} real {ge:?}");
                        }
                    },
                    (w, g) => bad!("wrong-result", "{op:?} n={n}: model {w:?} real {g:?}"),
                }
            },
            Op::PopFrontChar(s) => {
                need!(s);
                let t = self.real[s as usize].as_mut().unwrap();
                let r = real!(F::pop_front_char(t));
                match r {
                    Err(p) => bad!("panic", "pop_front_char panicked: {p}"),
                    Ok(None) => return Outcome::Disabled,
                    Ok(Some(g)) => {
                        let w = F::m_pop_front_char(self.model[s as usize].as_mut().unwrap());
                        if w != g {
                            bad!("return-value", "pop_front_char: model {w:?} real {g:?}");
                        }
                    },
                }
            },
            Op::CharRun(s) => {
                need!(s);
                let t = self.real[s as usize].as_mut().unwrap();
                let r = real!(F::char_run(t));
                match r {
                    Err(p) => bad!("panic", "pop_front_char_run panicked: {p}"),
                    Ok(None) => return Outcome::Disabled,
                    Ok(Some(g)) => {
                        let w = F::m_char_run(self.model[s as usize].as_mut().unwrap());
                        match (w, g) {
                            (None, None) => {},
                            (Some((wb, wc)), Some((gt, gc))) => {
                                if wc != gc {
                                    bad!("return-value", "char_run class: model {wc} real {gc}");
                                }
                                mon.enter();
                                self.real[2] = Some(gt);
                                mon.leave();
                                self.model[2] = Some(wb);
                            },
                            (w, g) => bad!("return-value", "char_run: model some={} real some={}", w.is_some(), g.is_some()),
                        }
                    },
                }
            },
            Op::Clear(s) => {
                need!(s);
                let t = self.real[s as usize].as_mut().unwrap();
                if let Err(p) = real!(t.clear()) {
                    bad!("panic", "clear panicked: {p}");
                }
                self.model[s as usize].as_mut().unwrap().clear();
            },
            Op::Reserve(s) => {
                need!(s);
                let t = self.real[s as usize].as_mut().unwrap();
                if let Err(p) = real!(t.reserve(20)) {
                    bad!("panic", "reserve panicked: {p}");
                }
            },
            Op::DropSlot(s) => {
                need!(s);
                let t = self.real[s as usize].take();
                if let Err(p) = real!(drop(t)) {
                    bad!("panic", "drop panicked: {p}");
                }
                self.model[s as usize] = None;
            },
            Op::Send(s) => {
                need!(s);
                let t = self.real[s as usize].take().unwrap();
                let r = real!({
                    let st: SendTendril<F> = t.into_send();
                    let back: Tendril<F, A> = Tendril::from(st);
                    back
                });
                match r {
                    Err(p) => bad!("panic", "into_send round trip panicked: {p}"),
                    Ok(b) => self.real[s as usize] = Some(b),
                }
            },
            Op::PushChar(s, c) => {
                need!(s);
                let ch = CHARS[c as usize];
                let t = self.real[s as usize].as_mut().unwrap();
                match real!(F::push_char(t, ch)) {
                    Err(p) => bad!("panic", "push_char panicked: {p}"),
                    Ok(None) => return Outcome::Disabled,
                    Ok(Some(g)) => {
                        let w = F::m_push_char(self.model[s as usize].as_mut().unwrap(), ch);
                        if w != g {
                            bad!("return-value", "try_push_char({ch:?}): model {w:?} real {g:?}");
                        }
                    },
                }
            },
            Op::WriteFirst(s) => {
                need!(s);
                let t = self.real[s as usize].as_mut().unwrap();
                match real!(F::write_first(t)) {
                    Err(p) => bad!("panic", "deref_mut write panicked: {p}"),
                    Ok(false) => return Outcome::Disabled,
                    Ok(true) => {
                        let m = self.model[s as usize].as_mut().unwrap();
                        if !m.is_empty() {
                            m[0] = m[0].to_ascii_uppercase();
                        }
                    },
                }
            },
            Op::ExtendByte(s) => {
                need!(s);
                let t = self.real[s as usize].as_mut().unwrap();
                match real!(F::extend_byte(t)) {
                    Err(p) => bad!("panic", "extend_with_byte panicked: {p}"),
                    Ok(false) => return Outcome::Disabled,
                    Ok(true) => self.model[s as usize].as_mut().unwrap().extend_from_slice(b"zzz"),
                }
            },
            Op::Swap01 => {
                if self.real[0].is_none() && self.real[1].is_none() {
                    return Outcome::Disabled;
                }
                self.real.swap(0, 1);
                self.model.swap(0, 1);
            },
        }
        Outcome::Ok
    }

    /// full-state oracle: every live slot holds exactly the model's bytes
    pub fn check(&self) -> Option<(String, String)> {
        for i in 0..3 {
            match (&self.real[i], &self.model[i]) {
                (None, None) => {},
                (Some(t), Some(m)) => {
                    let b: &[u8] = t.as_bytes();
                    if b != &m[..] {
                        return Some(("content".into(), format!("slot {i}: model {m:?} real {b:?}")));
                    }
                    if t.len32() as usize != m.len() {
                        return Some(("len32".into(), format!("slot {i}: {} vs {}", t.len32(), m.len())));
                    }
                    if !F::m_valid(b) {
                        return Some(("invalid-format".into(), format!("slot {i} holds {b:?}, invalid for {}", F::NAME)));
                    }
                },
                _ => return Some(("slot-liveness".into(), format!("slot {i}"))),
            }
        }
        None
    }

    pub fn shape(&self) -> u32 {
        let mut k = 0u32;
        for i in 0..3 {
            let c = match &self.real[i] {
                None => 0,
                Some(t) => {
                    if t.is_shared() {
                        3
                    } else if t.len32() > 8 {
                        2
                    } else {
                        1
                    }
                },
            };
            k = k * 4 + c;
        }
        for (a, b) in [(0, 1), (0, 2), (1, 2)] {
            let sh = match (&self.real[a], &self.real[b]) {
                (Some(x), Some(y)) => x.is_shared_with(y),
                _ => false,
            };
            k = k * 2 + sh as u32;
        }
        k
    }
}

pub struct Counters {
    pub execs: AtomicU64,
    pub ops: AtomicU64,
    pub shapes: Mutex<BTreeSet<u32>>,
}

pub fn render(ops: &[Op], seq: &[u16]) -> String {
    seq.iter()
        .map(|&s| format!("{:?}", ops[s as usize]))
        .collect::<Vec<_>>()
        .join("; ")
}

/// Execute one sequence from scratch. Returns false if the last op is disabled.
pub fn exec<F: FmtX, A: Atomicity>(
    ctx: &Ctx,
    job: &str,
    ops: &[Op],
    prefix: &[Op],
    seq: &[u16],
    mon: &dyn Monitor,
    cnt: &Counters,
    shapes: &mut BTreeSet<u32>,
) -> bool {
    mon.begin();
    let mut pool: Pool<F, A> = Pool::new();
    let mut enabled = true;
    let mut failed: Option<(String, String)> = None;
    let total = prefix.len() + seq.len();
    for i in 0..total {
        let op = if i < prefix.len() {
            prefix[i]
        } else {
            ops[seq[i - prefix.len()] as usize]
        };
        let last = i + 1 == total;
        match pool.apply(op, mon) {
            Outcome::Disabled => {
                if last || i < prefix.len() {
                    enabled = false;
                }
            },
            Outcome::Ok => {},
            Outcome::Bad(k, m) => {
                if last || i < prefix.len() {
                    failed = Some((k, m));
                } else {
                    // a prefix that failed was reported (and pruned) earlier
                    enabled = false;
                }
                break;
            },
        }
        if last {
            if let Some(e) = pool.check() {
                failed = Some(e);
            }
            if let Some(m) = mon.after_op() {
                failed = failed.or(Some(("allocator".into(), m)));
            }
        }
    }
    if enabled && failed.is_none() {
        shapes.insert(pool.shape());
    }
    mon.enter();
    let d = guarded(|| drop(std::mem::replace(&mut pool.real, [None, None, None])));
    mon.leave();
    if let Err(p) = d {
        failed = failed.or(Some(("panic".into(), format!("drop of pool panicked: {p}"))));
    }
    if let Some(m) = mon.end() {
        failed = failed.or(Some(("allocator".into(), m)));
    }
    cnt.execs.fetch_add(1, Ordering::Relaxed);
    cnt.ops.fetch_add(total as u64, Ordering::Relaxed);
    if let Some((k, m)) = failed {
        let w = format!(
            "{job}: {}",
            prefix
                .iter()
                .map(|o| format!("{o:?}"))
                .chain(seq.iter().map(|&s| format!("{:?}", ops[s as usize])))
                .collect::<Vec<_>>()
                .join("; ")
        );
        ctx.violation(&k, &w, json!({ "message": m }));
        return false;
    }
    enabled
}

fn dfs<F: FmtX, A: Atomicity>(
    ctx: &Ctx,
    job: &str,
    ops: &[Op],
    prefix: &[Op],
    seq: &mut Vec<u16>,
    depth: usize,
    mon: &dyn Monitor,
    cnt: &Counters,
    shapes: &mut BTreeSet<u32>,
) {
    if !seq.is_empty() || !prefix.is_empty() {
        if !exec::<F, A>(ctx, job, ops, prefix, seq, mon, cnt, shapes) {
            return;
        }
    }
    if seq.len() >= depth {
        return;
    }
    for s in 0..ops.len() as u16 {
        seq.push(s);
        dfs::<F, A>(ctx, job, ops, prefix, seq, depth, mon, cnt, shapes);
        seq.pop();
    }
}

/// representation witnesses: prefixes that put the pool into a particular
/// representation before the exhaustive suffix starts
pub fn witnesses<F: FmtX>() -> Vec<Vec<Op>> {
    let n = F::lits().len() as u8;
    let big = (0..n).find(|&i| F::lits()[i as usize].len() >= 9 && F::m_valid(F::lits()[i as usize])).unwrap();
    let huge = (0..n).rev().find(|&i| F::lits()[i as usize].len() >= 9 && F::lits()[i as usize].is_ascii()).unwrap();
    vec![
        vec![Op::Make(0, huge), Op::Reserve(0)],                       // owned with spare capacity
        vec![Op::Make(0, huge), Op::CloneTo(0, 1)],                    // shared pair
        vec![Op::Make(0, huge), Op::CloneTo(0, 1), Op::PopFront(1, 0)], // shared + offset
        vec![Op::Make(0, huge), Op::PushBytes(0, 1), Op::Sub(0, 2), Op::PopFront(0, 2)], // adjacent shared slices: slot2=[0,9) slot0=[9,..)
        vec![Op::Make(0, huge), Op::PushBytes(0, 1), Op::Sub(0, 2), Op::PopFront(0, 2), Op::Swap01, Op::CloneTo(2, 0)], // slot0=[0,9), slot1=[9,..): push_tendril(0,1) merges
        vec![Op::Make(0, big), Op::PopBack(0, 0)],                      // owned -> shared by pop_back
        vec![Op::Make(0, big), Op::Send(0)],
        vec![Op::Make(0, huge), Op::CloneTo(0, 1), Op::CloneTo(0, 2)],  // triple share
        vec![Op::Make(0, huge), Op::CharRun(0)],
    ]
}

pub fn explore<F: FmtX, A: Atomicity>(
    ctx: &Ctx,
    aname: &str,
    depth: usize,
    wdepth: usize,
    ladder_depth: usize,
    mon: &(dyn Monitor),
    cnt: &Counters,
) -> serde_json::Value {
    let ops = alphabet::<F>();
    let job = format!("{}/{}", F::NAME, aname);
    let t0 = std::time::Instant::now();
    let e0 = cnt.execs.load(Ordering::Relaxed);
    // job 1: all sequences of length <= depth from the empty pool
    let firsts: Vec<(u16, u16)> = (0..ops.len() as u16)
        .flat_map(|a| (0..ops.len() as u16).map(move |b| (a, b)))
        .collect();
    // length-1 sequences first (sequentially), then parallel over 2-prefixes
    let mut sh = BTreeSet::new();
    let mut alive1 = vec![];
    for a in 0..ops.len() as u16 {
        if exec::<F, A>(ctx, &job, &ops, &[], &[a], mon, cnt, &mut sh) {
            alive1.push(a);
        }
    }
    cnt.shapes.lock().unwrap().extend(sh);
    if depth >= 2 {
        firsts.par_iter().for_each(|&(a, b)| {
            if !alive1.contains(&a) {
                return;
            }
            let mut sh = BTreeSet::new();
            let mut seq = vec![a, b];
            dfs::<F, A>(ctx, &job, &ops, &[], &mut seq, depth, mon, cnt, &mut sh);
            cnt.shapes.lock().unwrap().extend(sh);
        });
    }
    let e1 = cnt.execs.load(Ordering::Relaxed);
    // job 2: from representation witnesses
    let ws = witnesses::<F>();
    let tasks: Vec<(usize, u16)> = (0..ws.len())
        .flat_map(|w| (0..ops.len() as u16).map(move |a| (w, a)))
        .collect();
    tasks.par_iter().for_each(|&(w, a)| {
        let mut sh = BTreeSet::new();
        let mut seq = vec![a];
        dfs::<F, A>(ctx, &job, &ops, &ws[w], &mut seq, wdepth, mon, cnt, &mut sh);
        cnt.shapes.lock().unwrap().extend(sh);
    });
    let e2 = cnt.execs.load(Ordering::Relaxed);
    // job 3: length ladder (all ops x all ops after a tendril of every ladder length, in four representations)
    let lad = if ladder_depth > 0 { ladder(ctx.tier == Tier::Thorough && !ctx.replay_mode) } else { vec![] };
    let ltasks: Vec<(u32, usize)> = lad.iter().flat_map(|&n| (0..4usize).map(move |p| (n, p))).collect();
    ltasks.par_iter().for_each(|&(n, p)| {
        let mut sh = BTreeSet::new();
        let pre = &ladder_prefixes(n)[p];
        let mut seq = vec![];
        dfs::<F, A>(ctx, &job, &ops, pre, &mut seq, ladder_depth, mon, cnt, &mut sh);
        cnt.shapes.lock().unwrap().extend(sh);
    });
    // big ladder: lengths around the powers of two up to 256 Ki (4 Mi thorough), one further operation
    // (allocator thresholds and growth rounding far above anything a depth-bounded search builds up)
    let big: Vec<u32> = if ladder_depth >= 2 {
        let top = if ctx.tier == Tier::Thorough { 22 } else { 18 };
        let mut v = vec![];
        for k in 12..=top {
            let p = 1u32 << k;
            for d in [-17i64, -16, -15, -9, -8, -1, 0, 1] {
                v.push((p as i64 + d) as u32);
            }
        }
        v
    } else if ctx.replay_mode {
        // valgrind pass-through: two powers of two are enough to cross the allocator's size classes
        [4096u32 - 1, 4096, 4097, 8192 - 16, 8192, 8193].to_vec()
    } else {
        vec![]
    };
    let btasks: Vec<(u32, usize)> = big.iter().flat_map(|&n| (0..4usize).map(move |p| (n, p))).collect();
    btasks.par_iter().for_each(|&(n, p)| {
        let mut sh = BTreeSet::new();
        let pre = &ladder_prefixes(n)[p];
        let mut seq = vec![];
        dfs::<F, A>(ctx, &job, &ops, pre, &mut seq, 1, mon, cnt, &mut sh);
        cnt.shapes.lock().unwrap().extend(sh);
    });
    let e3 = cnt.execs.load(Ordering::Relaxed);
    json!({
        "job": job, "alphabet": ops.len(), "depth": depth, "witness_prefixes": ws.len(), "witness_depth": wdepth,
        "big_ladder_lengths": big.len(),
        "sequences_from_empty": e1 - e0, "sequences_from_witnesses": e2 - e1,
        "ladder_lengths": lad.len(), "ladder_depth": ladder_depth, "sequences_from_ladder": e3 - e2,
        "secs": (t0.elapsed().as_secs_f64() * 100.0).round() / 100.0,
    })
}

pub fn run_all(ctx: &Ctx, mon: &dyn Monitor, depth: usize, wdepth: usize, small_depth: usize) -> (Vec<serde_json::Value>, Counters) {
    let cnt = Counters {
        execs: AtomicU64::new(0),
        ops: AtomicU64::new(0),
        shapes: Mutex::new(BTreeSet::new()),
    };
    let mut jobs = vec![];
    // the valgrind pass-through (replay_mode) runs ~50x slower: ladder with one further operation only
    let ld = if ctx.replay_mode { 1 } else { 2 };
    jobs.push(explore::<fmt::UTF8, NonAtomic>(ctx, "NonAtomic", depth, wdepth, ld, mon, &cnt));
    jobs.push(explore::<fmt::Bytes, NonAtomic>(ctx, "NonAtomic", depth, wdepth, ld, mon, &cnt));
    jobs.push(explore::<fmt::UTF8, Atomic>(ctx, "Atomic", small_depth, wdepth.min(small_depth), 1, mon, &cnt));
    jobs.push(explore::<fmt::Bytes, Atomic>(ctx, "Atomic", small_depth, wdepth.min(small_depth), 1, mon, &cnt));
    jobs.push(explore::<fmt::WTF8, NonAtomic>(ctx, "NonAtomic", small_depth, wdepth.min(small_depth), 1, mon, &cnt));
    jobs.push(explore::<fmt::ASCII, NonAtomic>(ctx, "NonAtomic", small_depth, wdepth.min(small_depth), 1, mon, &cnt));
    jobs.push(explore::<fmt::Latin1, NonAtomic>(ctx, "NonAtomic", small_depth, wdepth.min(small_depth), 1, mon, &cnt));
    (jobs, cnt)
}

/// Whole-domain sweeps: every lead surrogate x a few trail surrogates joined by both WTF-8 push paths
/// (inline and heap left operand), and every Unicode scalar value through the UTF-8 character paths.
pub fn domain_sweeps(ctx: &Ctx) -> u64 {
    use rayon::prelude::*;
    fn surr(cp: u32) -> [u8; 3] {
        [0xE0 | (cp >> 12) as u8, 0x80 | ((cp >> 6) & 0x3F) as u8, 0x80 | (cp & 0x3F) as u8]
    }
    let n = AtomicU64::new(0);
    (0xD800u32..=0xDBFF).into_par_iter().for_each(|lead| {
        for trail in [0xDC00u32, 0xDC01, 0xDD55, 0xDE00, 0xDFFE, 0xDFFF] {
            for prefix in ["", "a", "abcdefghij"] {
                for via_tendril in [false, true] {
                    let mut left = prefix.as_bytes().to_vec();
                    left.extend_from_slice(&surr(lead));
                    let mut right = surr(trail).to_vec();
                    right.extend_from_slice(b"z");
                    let mut model = left.clone();
                    <fmt::WTF8 as FmtX>::m_push(&mut model, &right);
                    n.fetch_add(1, Ordering::Relaxed);
                    let r = guarded(|| {
                        let mut t = Tendril::<fmt::WTF8, NonAtomic>::try_from_byte_slice(&left).map_err(|_| "left rejected")?;
                        if via_tendril {
                            let o = Tendril::<fmt::WTF8, NonAtomic>::try_from_byte_slice(&right).map_err(|_| "right rejected")?;
                            t.push_tendril(&o);
                        } else {
                            t.try_push_bytes(&right).map_err(|_| "push rejected")?;
                        }
                        Ok::<Vec<u8>, &'static str>(t.as_bytes().to_vec())
                    });
                    let w = format!("sweep WTF8 lead=U+{lead:04X} trail=U+{trail:04X} prefix={prefix:?} via_tendril={via_tendril}");
                    match r {
                        Ok(Ok(got)) if got == model => {},
                        Ok(Ok(got)) => {
                            ctx.violation("content", &w, json!({"message": format!("tendril {got:02X?} model {model:02X?}")}));
                        },
                        Ok(Err(e)) => {
                            ctx.violation("rejected-valid", &w, json!({"message": e}));
                        },
                        Err(p) => {
                            ctx.violation("panic", &w, json!({"message": p}));
                        },
                    }
                }
            }
        }
    });
    (0u32..=0x10FFFF).into_par_iter().for_each(|cp| {
        let Some(c) = char::from_u32(cp) else { return };
        n.fetch_add(1, Ordering::Relaxed);
        let r = guarded(|| {
            let mut out = vec![];
            let a = tendril::StrTendril::from_char(c);
            out.push(a.to_string());
            for prefix in ["", "abcdef", "abcdefg", "abcdefgh"] {
                let mut t = tendril::StrTendril::from_slice(prefix);
                t.push_char(c);
                t.push_char('!');
                out.push(t.to_string());
                let mut u = t.clone();
                out.push(format!("{:?}", u.pop_front_char()));
                out.push(u.to_string());
            }
            out
        });
        let mut want = vec![c.to_string()];
        for prefix in ["", "abcdef", "abcdefg", "abcdefgh"] {
            let s = format!("{prefix}{c}!");
            want.push(s.clone());
            want.push(format!("{:?}", s.chars().next()));
            want.push(s.chars().skip(1).collect());
        }
        let w = format!("sweep UTF8 char U+{cp:04X}");
        match r {
            Ok(got) if got == want => {},
            Ok(got) => {
                ctx.violation("content", &w, json!({"message": format!("tendril {got:?} model {want:?}")}));
            },
            Err(p) => {
                ctx.violation("panic", &w, json!({"message": p}));
            },
        }
    });
    n.load(Ordering::Relaxed)
}

pub fn main(ctx: &Ctx) -> ! {
    let sweeps = domain_sweeps(ctx);
    let (depth, wdepth, small) = ctx.tier.pick((4, 3, 4), (5, 4, 4));
    let (jobs, cnt) = run_all(ctx, &NoMonitor, depth, wdepth, small);
    let shapes = cnt.shapes.lock().unwrap().len();
    if shapes < 20 {
        machinery(&format!("vacuous exploration: only {shapes} representation shapes seen"));
    }
    let ops = alphabet::<fmt::UTF8>();
    ctx.assume("pool of 3 slots; literals of 1/8/9/12/17 bytes straddle the 8-byte inline limit; ops on slots 0/1, results into slot 2");
    ctx.assume("model validity/boundary rules written independently (std::str::from_utf8, generalized UTF-8 for WTF-8)");
    ctx.finish(
        "exploration",
        json!({
            "evaluations": cnt.execs.load(Ordering::Relaxed),
            "operations_executed": cnt.ops.load(Ordering::Relaxed),
            "distinct_nontrivial": shapes,
            "rule": "stateless exhaustive DFS over all operation sequences up to the stated depth (no state merging: capacity is invisible), re-executed from scratch; after the last op every live slot must equal its Vec<u8> model, be valid for its format, and every checked op must fail iff the model says so. distinct_nontrivial = distinct (representation class per slot, buffer-sharing matrix) tuples reached.",
            "exhaustive": true,
            "domain_sweep_evaluations": sweeps,
            "jobs": jobs,
            "samples": [render(&ops, &[0, 9, 20]), render(&ops, &[2, 14, 40, 41]), format!("{:?}", witnesses::<fmt::UTF8>()[4])],
        }),
    )
}

pub fn replay_with(ctx: &Ctx, witness: &str, mon: &dyn Monitor) {
    if witness.starts_with("sweep ") {
        domain_sweeps(ctx);
        return;
    }
    // witness = "<Fmt>/<Atomicity>: op; op; ..."
    let (job, rest) = witness.split_once(": ").unwrap_or(("", witness));
    macro_rules! go {
        ($f:ty, $a:ty) => {{
            let ops = alphabet::<$f>();
            // prefix ops may not be in the alphabet; parse against Debug of a superset
            let mut all: Vec<Op> = ops.clone();
            for w in witnesses::<$f>() {
                all.extend(w);
            }
            let seq: Vec<Op> = rest
                .split("; ")
                .filter(|s| !s.is_empty())
                .map(|s| {
                    if let Some(r) = s.strip_prefix("MakeN(") {
                        let mut it = r.trim_end_matches(')').split(", ");
                        return Op::MakeN(it.next().unwrap().parse().unwrap(), it.next().unwrap().parse().unwrap());
                    }
                    *all.iter().find(|o| format!("{o:?}") == s).unwrap_or_else(|| machinery(&format!("unknown op {s}")))
                })
                .collect();
            let cnt = Counters { execs: AtomicU64::new(0), ops: AtomicU64::new(0), shapes: Mutex::new(BTreeSet::new()) };
            let mut sh = BTreeSet::new();
            let ok = exec::<$f, $a>(ctx, job, &ops, &seq, &[], mon, &cnt, &mut sh);
            println!("replay: {} (enabled={ok})", if ctx.violations() == 0 { "passes" } else { "FAILS" });
        }};
    }
    match job {
        "UTF8/NonAtomic" => go!(fmt::UTF8, NonAtomic),
        "UTF8/Atomic" => go!(fmt::UTF8, Atomic),
        "Bytes/NonAtomic" => go!(fmt::Bytes, NonAtomic),
        "Bytes/Atomic" => go!(fmt::Bytes, Atomic),
        "WTF8/NonAtomic" => go!(fmt::WTF8, NonAtomic),
        "ASCII/NonAtomic" => go!(fmt::ASCII, NonAtomic),
        "Latin1/NonAtomic" => go!(fmt::Latin1, NonAtomic),
        j => machinery(&format!("unknown job {j}")),
    }
}
