//! C11 / C12: exhaustive operation sequences over a pool of tendrils against a
//! Vec<u8> model. The same enumeration runs under the tracking allocator for
//! C12 (vfalloc binary) through the `Monitor` hooks.
use crate::common::*;
use rayon::prelude::*;
use serde_json::json;
use std::collections::BTreeSet;
use std::sync::atomic::{AtomicU64, Ordering};
use std::sync::Mutex;
use tendril::fmt;
use tendril::{Atomic, Atomicity, NonAtomic, SendTendril, SubtendrilError, Tendril};

pub trait Monitor: Sync {
    /// called before the first op of an execution
    fn begin(&self) {}
    /// real code is about to run / has returned
    fn enter(&self) {}
    fn leave(&self) {}
    /// invariant check after an op; Some(msg) = violation
    fn after_op(&self) -> Option<String> {
        None
    }
    /// all tendrils of the execution are dropped
    fn end(&self) -> Option<String> {
        None
    }
}
pub struct NoMonitor;
impl Monitor for NoMonitor {}

pub trait FmtX: fmt::Format + Sized + 'static {
    const NAME: &'static str;
    fn lits() -> &'static [&'static [u8]];
    fn push_lits() -> &'static [&'static [u8]];
    fn m_valid(b: &[u8]) -> bool;
    fn m_boundary(b: &[u8], i: usize) -> bool {
        i == 0 || i >= b.len() || (b[i] & 0xC0) != 0x80
    }
    fn m_push(m: &mut Vec<u8>, add: &[u8]) {
        m.extend_from_slice(add)
    }
    fn pop_front_char<A: Atomicity>(_t: &mut Tendril<Self, A>) -> Option<Option<char>> {
        None
    }
    fn m_pop_front_char(_m: &mut Vec<u8>) -> Option<char> {
        None
    }
    fn char_run<A: Atomicity>(_t: &mut Tendril<Self, A>) -> Option<Option<(Tendril<Self, A>, bool)>> {
        None
    }
    fn m_char_run(_m: &mut Vec<u8>) -> Option<(Vec<u8>, bool)> {
        None
    }
    fn push_char<A: Atomicity>(_t: &mut Tendril<Self, A>, _c: char) -> Option<Result<(), ()>> {
        None
    }
    fn m_push_char(_m: &mut Vec<u8>, _c: char) -> Result<(), ()> {
        Err(())
    }
    /// safe in-place mutation through DerefMut (forces copy-on-write)
    fn write_first<A: Atomicity>(_t: &mut Tendril<Self, A>) -> bool {
        false
    }
    fn extend_byte<A: Atomicity>(_t: &mut Tendril<Self, A>) -> bool {
        false
    }
    const HAS_EXTEND_BYTE: bool = false;
    fn extend_huge<A: Atomicity>(_t: &mut Tendril<Self, A>, _n: u32) {}
    /// Hash must agree with the hash of the byte slice (Borrow<[u8]> contract of the slice formats)
    const HASH_AS_BYTES: bool = true;
    /// format-specific conversion / trait batteries (leaf-only `Op::Conv`); ids >= 10
    fn convs() -> &'static [u8] {
        &[]
    }
    /// real side: mutate `t` in place, return labelled observations
    fn conv<A: Atomicity>(_w: u8, _t: &mut Tendril<Self, A>) -> Obs {
        vec![]
    }
    /// model side of the same battery
    fn m_conv(_w: u8, _m: &mut Vec<u8>) -> Obs {
        vec![]
    }
    fn cmp_x<A: Atomicity>(_a: &Tendril<Self, A>, _b: &Tendril<Self, A>) -> Option<std::cmp::Ordering> {
        None
    }
}

pub type Obs = Vec<(&'static str, Vec<u8>)>;

fn bytes_of<X: fmt::Format, A: Atomicity>(t: &Tendril<X, A>) -> Vec<u8> {
    let b: &[u8] = t.as_bytes();
    b.to_vec()
}
fn flag(b: bool) -> Vec<u8> {
    vec![b as u8]
}
fn hash_of<T: std::hash::Hash + ?Sized>(t: &T) -> Vec<u8> {
    use std::hash::Hasher;
    let mut h = std::collections::hash_map::DefaultHasher::new();
    t.hash(&mut h);
    h.finish().to_le_bytes().to_vec()
}

/// generic batteries (ids < 10)
pub const G_REINTERPRET: u8 = 0;
pub const G_EQ_HASH_ORD: u8 = 1;
pub const G_EXTEND_TENDRILS: u8 = 2;
pub const G_FROM_ITER_TENDRILS: u8 = 3;
pub const G_BYTES_ROUNDTRIP: u8 = 4;
pub const G_WITH_CAPACITY: u8 = 5;
const GENERIC_CONVS: &[u8] = &[G_REINTERPRET, G_EQ_HASH_ORD, G_EXTEND_TENDRILS, G_FROM_ITER_TENDRILS, G_BYTES_ROUNDTRIP, G_WITH_CAPACITY];
const CAPS: &[u32] = &[0, 1, 8, 9, 16, 100];

fn g_real<F: FmtX, A: Atomicity>(w: u8, t: &mut Tendril<F, A>, oth: [Option<&Tendril<F, A>>; 2]) -> (Obs, Option<Tendril<F, A>>) {
    let mut o: Obs = vec![];
    let mut new2 = None;
    match w {
        G_REINTERPRET => {
            macro_rules! one {
                ($X:ty, $v:literal, $ve:literal, $i:literal, $ie:literal) => {
                    match t.try_reinterpret_view::<$X>() {
                        Ok(v) => o.push(($v, bytes_of(v))),
                        Err(()) => o.push(($ve, vec![])),
                    }
                    match t.clone().try_reinterpret::<$X>() {
                        Ok(v) => o.push(($i, bytes_of(&v))),
                        Err(orig) => o.push(($ie, bytes_of(&orig))),
                    }
                };
            }
            one!(fmt::Bytes, "view-Bytes", "view-err-Bytes", "into-Bytes", "into-err-Bytes");
            one!(fmt::UTF8, "view-UTF8", "view-err-UTF8", "into-UTF8", "into-err-UTF8");
            one!(fmt::ASCII, "view-ASCII", "view-err-ASCII", "into-ASCII", "into-err-ASCII");
            one!(fmt::Latin1, "view-Latin1", "view-err-Latin1", "into-Latin1", "into-err-Latin1");
            one!(fmt::WTF8, "view-WTF8", "view-err-WTF8", "into-WTF8", "into-err-WTF8");
            o.push(("into_bytes", bytes_of(&t.clone().into_bytes())));
        },
        G_EQ_HASH_ORD => {
            o.push(("hash", hash_of(t)));
            let c = t.clone();
            o.push(("eq-clone", flag(*t == c && !(*t != c))));
            o.push(("hash-clone", flag(hash_of(t) == hash_of(&c))));
            for x in oth.iter().flatten() {
                o.push(("eq", flag(*t == **x)));
                o.push(("eq-sym", flag(**x == *t)));
                o.push(("hash-eq", flag(hash_of(t) == hash_of(*x))));
                let k = match F::cmp_x(t, x) {
                    None => 9u8,
                    Some(std::cmp::Ordering::Less) => 0,
                    Some(std::cmp::Ordering::Equal) => 1,
                    Some(std::cmp::Ordering::Greater) => 2,
                };
                o.push(("cmp", vec![k]));
            }
        },
        G_EXTEND_TENDRILS => {
            let cl: Vec<Tendril<F, A>> = oth.iter().flatten().map(|x| (*x).clone()).collect();
            t.extend(cl.iter());
            let me = t.clone();
            t.extend(std::iter::once(&me));
        },
        G_FROM_ITER_TENDRILS => {
            let mut refs: Vec<&Tendril<F, A>> = vec![&*t];
            refs.extend(oth.iter().flatten().copied());
            let n: Tendril<F, A> = refs.iter().copied().collect();
            o.push(("collected", bytes_of(&n)));
            let e: Tendril<F, A> = std::iter::empty::<&Tendril<F, A>>().collect();
            o.push(("collected-empty", bytes_of(&e)));
            new2 = Some(n);
        },
        G_BYTES_ROUNDTRIP => {
            let tmp = std::mem::replace(t, Tendril::new());
            o.push(("taken-leaves-empty", bytes_of(t)));
            let b = tmp.into_bytes();
            match b.try_reinterpret::<F>() {
                Ok(x) => *t = x,
                Err(b) => o.push(("roundtrip-rejected", bytes_of(&b))),
            }
        },
        G_WITH_CAPACITY => {
            for &k in CAPS {
                let mut n = Tendril::<F, A>::with_capacity(k);
                o.push(("fresh", bytes_of(&n)));
                n.push_tendril(t);
                o.push(("cap+t", bytes_of(&n)));
                n.push_tendril(t);
                o.push(("cap+t+t", bytes_of(&n)));
            }
            let d: Tendril<F, A> = Default::default();
            o.push(("default", bytes_of(&d)));
        },
        _ => {},
    }
    (o, new2)
}

fn g_model<F: FmtX>(w: u8, m: &mut Vec<u8>, oth: [Option<&Vec<u8>>; 2]) -> (Obs, Option<Vec<u8>>) {
    let mut o: Obs = vec![];
    let mut new2 = None;
    match w {
        G_REINTERPRET => {
            let v = [
                (<fmt::Bytes as FmtX>::m_valid(m), "view-Bytes", "view-err-Bytes", "into-Bytes", "into-err-Bytes"),
                (<fmt::UTF8 as FmtX>::m_valid(m), "view-UTF8", "view-err-UTF8", "into-UTF8", "into-err-UTF8"),
                (<fmt::ASCII as FmtX>::m_valid(m), "view-ASCII", "view-err-ASCII", "into-ASCII", "into-err-ASCII"),
                (<fmt::Latin1 as FmtX>::m_valid(m), "view-Latin1", "view-err-Latin1", "into-Latin1", "into-err-Latin1"),
                (<fmt::WTF8 as FmtX>::m_valid(m), "view-WTF8", "view-err-WTF8", "into-WTF8", "into-err-WTF8"),
            ];
            for (ok, a, ae, b, be) in v {
                if ok {
                    o.push((a, m.clone()));
                    o.push((b, m.clone()));
                } else {
                    o.push((ae, vec![]));
                    o.push((be, m.clone()));
                }
            }
            o.push(("into_bytes", m.clone()));
        },
        G_EQ_HASH_ORD => {
            o.push(("hash", hash_of(&m[..])));
            o.push(("eq-clone", flag(true)));
            o.push(("hash-clone", flag(true)));
            for x in oth.iter().flatten() {
                o.push(("eq", flag(m == *x)));
                o.push(("eq-sym", flag(m == *x)));
                // placeholder: equal content must hash equally; unequal content may collide
                o.push(("hash-eq", flag(m == *x)));
                o.push(("cmp", vec![match m[..].cmp(&x[..]) {
                    std::cmp::Ordering::Less => 0u8,
                    std::cmp::Ordering::Equal => 1,
                    std::cmp::Ordering::Greater => 2,
                }]));
            }
        },
        G_EXTEND_TENDRILS => {
            for x in oth.iter().flatten() {
                F::m_push(m, x);
            }
            let me = m.clone();
            F::m_push(m, &me);
        },
        G_FROM_ITER_TENDRILS => {
            let mut n = m.clone();
            for x in oth.iter().flatten() {
                F::m_push(&mut n, x);
            }
            o.push(("collected", n.clone()));
            o.push(("collected-empty", vec![]));
            new2 = Some(n);
        },
        G_BYTES_ROUNDTRIP => {
            o.push(("taken-leaves-empty", vec![]));
        },
        G_WITH_CAPACITY => {
            for _ in CAPS {
                o.push(("fresh", vec![]));
                o.push(("cap+t", m.clone()));
                let mut d = m.clone();
                F::m_push(&mut d, m);
                o.push(("cap+t+t", d));
            }
            o.push(("default", vec![]));
        },
        _ => {},
    }
    (o, new2)
}

/// compare observation lists; "hash" is only comparable where the format promises slice hashing, "cmp" where
/// the format has an ordering, "hash-eq" only obliges equal contents to hash equally
fn obs_diff<F: FmtX>(real: &Obs, model: &Obs) -> Option<String> {
    if real.len() != model.len() {
        return Some(format!("{} observations, model {}", real.len(), model.len()));
    }
    for (i, ((rl, rv), (ml, mv))) in real.iter().zip(model.iter()).enumerate() {
        if rl != ml {
            return Some(format!("observation {i}: real {rl} ({rv:02X?}) model {ml} ({mv:02X?})"));
        }
        let skip = match *rl {
            "hash" => !F::HASH_AS_BYTES,
            "cmp" => rv == &[9u8],
            "hash-eq" => mv == &[0u8],
            _ => false,
        };
        if !skip && rv != mv {
            return Some(format!("observation {i} ({rl}): real {rv:02X?} model {mv:02X?}"));
        }
    }
    None
}

fn classify(c: char) -> bool {
    c.is_ascii_lowercase()
}

fn utf8_pop(m: &mut Vec<u8>) -> Option<char> {
    let s = std::str::from_utf8(m).ok()?;
    let c = s.chars().next()?;
    m.drain(..c.len_utf8());
    Some(c)
}
fn byte_pop(m: &mut Vec<u8>) -> Option<char> {
    if m.is_empty() {
        None
    } else {
        Some(m.remove(0) as char)
    }
}
fn run_model(m: &mut Vec<u8>, chars: Vec<(usize, char)>) -> Option<(Vec<u8>, bool)> {
    let (_, first) = *chars.first()?;
    let class = classify(first);
    let idx = chars
        .iter()
        .find(|(_, c)| classify(*c) != class)
        .map(|x| x.0)
        .unwrap_or(m.len());
    let run: Vec<u8> = m.drain(..idx).collect();
    Some((run, class))
}

const L_A: &[u8] = b"a";
const L_8: &[u8] = b"abcdefgh";
const L_9: &[u8] = b"abcdefghi";
const L_17: &[u8] = b"ABCDEFGHIJKLMNOPQ";
const L_E: &[u8] = "a\u{e9}".as_bytes();
const L_EURO: &[u8] = "\u{20ac}uro\u{1F600}xy".as_bytes(); // 12 bytes
const L_BAD: &[u8] = &[0xC3];
const L_HI: &[u8] = &[0xE9];
const L_LEAD: &[u8] = &[0xED, 0xA0, 0x80];
const L_TRAIL: &[u8] = &[0xED, 0xB0, 0x80];
const L_LEAD9: &[u8] = &[b'a', b'b', b'c', b'd', b'e', b'f', 0xED, 0xA0, 0x80];
const L_PAIR: &[u8] = &[0xED, 0xA0, 0x80, 0xED, 0xB0, 0x80];

impl FmtX for fmt::Bytes {
    const NAME: &'static str = "Bytes";
    fn lits() -> &'static [&'static [u8]] {
        &[L_A, L_8, L_9, L_17, L_BAD]
    }
    fn push_lits() -> &'static [&'static [u8]] {
        &[L_A, L_9, L_HI]
    }
    fn m_valid(_: &[u8]) -> bool {
        true
    }
    fn m_boundary(_: &[u8], _: usize) -> bool {
        true
    }
    fn write_first<A: Atomicity>(t: &mut Tendril<Self, A>) -> bool {
        // (DerefMut also on an empty tendril)
        let s: &mut [u8] = &mut t[..];
        if let Some(b) = s.first_mut() {
            *b = b.to_ascii_uppercase();
        }
        true
    }
    fn extend_byte<A: Atomicity>(t: &mut Tendril<Self, A>) -> bool {
        t.extend_with_byte(3, b'z');
        true
    }
    const HAS_EXTEND_BYTE: bool = true;
    fn extend_huge<A: Atomicity>(t: &mut Tendril<Self, A>, n: u32) {
        t.extend_with_byte(n, b'z');
    }
    fn convs() -> &'static [u8] {
        &[20, 21, 22, 23, 24, 25]
    }
    fn cmp_x<A: Atomicity>(a: &Tendril<Self, A>, b: &Tendril<Self, A>) -> Option<std::cmp::Ordering> {
        if a.partial_cmp(b) != Some(a.cmp(b)) {
            return Some(a.cmp(b).reverse());
        }
        Some(a.cmp(b))
    }
    fn conv<A: Atomicity>(w: u8, t: &mut Tendril<Self, A>) -> Obs {
        use std::io::Write;
        use tendril::ReadExt;
        let mut o: Obs = vec![];
        match w {
            20 => {
                t.extend(B_BYTES.iter().copied());
                t.extend(std::iter::empty::<u8>());
                let n: Tendril<Self, A> = B_BYTES.iter().copied().collect();
                o.push(("from-u8", bytes_of(&n)));
                let n: Tendril<Self, A> = (0..40u8).collect();
                o.push(("from-u8-40", bytes_of(&n)));
            },
            21 => {
                t.extend(B_BYTES.iter());
                let n: Tendril<Self, A> = B_BYTES.iter().collect();
                o.push(("from-&u8", bytes_of(&n)));
            },
            22 => {
                t.extend(B_SLICES.iter().copied());
                let n: Tendril<Self, A> = B_SLICES.iter().copied().collect();
                o.push(("from-slices", bytes_of(&n)));
            },
            23 => {
                match t.write(b"hello world!") {
                    Ok(n) => o.push(("write", vec![n as u8])),
                    Err(_) => o.push(("write-err", vec![])),
                }
                o.push(("write-empty", vec![t.write(b"").map(|n| n as u8).unwrap_or(99)]));
                o.push(("write_all", flag(t.write_all(&[0xFF, 0x00, 0x41]).is_ok())));
                o.push(("flush", flag(t.flush().is_ok())));
                o.push(("write!", flag(write!(t, "{}:{}", 5, "z").is_ok())));
            },
            24 => {
                for &n in READ_LENS {
                    let data: Vec<u8> = (0..n).map(|i| (i % 251) as u8).collect();
                    let mut rd: &[u8] = &data;
                    match rd.read_to_tendril(t) {
                        Ok(k) => o.push(("read", (k as u32).to_le_bytes().to_vec())),
                        Err(_) => o.push(("read-err", vec![])),
                    }
                }
                let mut rd = Dribble { data: (0..70u8).collect(), pos: 0, step: 1, fail_at: None, interrupted: 0 };
                o.push(("dribble", vec![rd.read_to_tendril(t).map(|k| k as u8).unwrap_or(255)]));
                let mut rd = Dribble { data: (0..70u8).collect(), pos: 0, step: 7, fail_at: None, interrupted: 2 };
                o.push(("interrupted", vec![rd.read_to_tendril(t).map(|k| k as u8).unwrap_or(255)]));
                let mut rd = Dribble { data: (0..70u8).collect(), pos: 0, step: 5, fail_at: Some(10), interrupted: 0 };
                o.push(("failing", vec![rd.read_to_tendril(t).map(|k| k as u8).unwrap_or(255)]));
            },
            25 => {
                let v: Vec<u8> = t.to_vec();
                o.push(("From<&[u8]>", bytes_of(&Tendril::<Self, A>::from(&v[..]))));
                o.push(("from_slice", bytes_of(&Tendril::<Self, A>::from_slice(&v))));
                o.push(("to_tendril", bytes_of(&tendril::SliceExt::to_tendril(&v[..]))));
                let r: &[u8] = t.as_ref();
                o.push(("AsRef<[u8]>", r.to_vec()));
                let b: &[u8] = std::borrow::Borrow::borrow(&*t);
                o.push(("Borrow<[u8]>", b.to_vec()));
                t.push_slice(&[0x80, 0x41]);
                let dbg = format!("{:?}", t);
                let kind_ok = ["Tendril<Bytes>(inline: ", "Tendril<Bytes>(owned: ", "Tendril<Bytes>(shared: "].iter().find(|p| dbg.starts_with(**p));
                o.push(("Debug-content", kind_ok.map(|p| dbg[p.len()..].as_bytes().to_vec()).unwrap_or_default()));
            },
            _ => {},
        }
        o
    }
    fn m_conv(w: u8, m: &mut Vec<u8>) -> Obs {
        let mut o: Obs = vec![];
        match w {
            20 => {
                m.extend_from_slice(B_BYTES);
                o.push(("from-u8", B_BYTES.to_vec()));
                o.push(("from-u8-40", (0..40u8).collect()));
            },
            21 => {
                m.extend_from_slice(B_BYTES);
                o.push(("from-&u8", B_BYTES.to_vec()));
            },
            22 => {
                let add = B_SLICES.concat();
                m.extend_from_slice(&add);
                o.push(("from-slices", add));
            },
            23 => {
                m.extend_from_slice(b"hello world!");
                m.extend_from_slice(&[0xFF, 0x00, 0x41]);
                m.extend_from_slice(b"5:z");
                o.push(("write", vec![12]));
                o.push(("write-empty", vec![0]));
                o.push(("write_all", flag(true)));
                o.push(("flush", flag(true)));
                o.push(("write!", flag(true)));
            },
            24 => {
                for &n in READ_LENS {
                    m.extend((0..n).map(|i| (i % 251) as u8));
                    o.push(("read", n.to_le_bytes().to_vec()));
                }
                m.extend(0..70u8);
                o.push(("dribble", vec![70]));
                m.extend(0..70u8);
                o.push(("interrupted", vec![70]));
                // a failing reader: the bytes read before the error stay (as std's read_to_end)
                m.extend(0..10u8);
                o.push(("failing", vec![255]));
            },
            25 => {
                for l in ["From<&[u8]>", "from_slice", "to_tendril", "AsRef<[u8]>", "Borrow<[u8]>"] {
                    o.push((l, m.clone()));
                }
                m.extend_from_slice(&[0x80, 0x41]);
                o.push(("Debug-content", format!("{:?})", &m[..]).into_bytes()));
            },
            _ => {},
        }
        o
    }
}

const U_CHARS: &[char] = &['a', '\u{e9}', '\u{1F600}', '\u{7ff}', '\u{800}'];
const U_STRS: &[&str] = &["", "ab", "\u{e9}x", "0123456789"];
const B_BYTES: &[u8] = &[1, 2, 0xFF, 0, 0x80];
const B_SLICES: &[&[u8]] = &[b"", b"ab", &[0xC3], b"0123456789"];
const READ_LENS: &[u32] = &[0, 5, 31, 32, 33, 100, 5000];

/// an io::Read that hands out `step` bytes per call, reports Interrupted `interrupted` times first and
/// fails with a hard error once `fail_at` bytes have been delivered
struct Dribble {
    data: Vec<u8>,
    pos: usize,
    step: usize,
    fail_at: Option<usize>,
    interrupted: u32,
}
impl std::io::Read for Dribble {
    fn read(&mut self, buf: &mut [u8]) -> std::io::Result<usize> {
        if self.interrupted > 0 {
            self.interrupted -= 1;
            return Err(std::io::Error::from(std::io::ErrorKind::Interrupted));
        }
        if let Some(f) = self.fail_at {
            if self.pos >= f {
                return Err(std::io::Error::from(std::io::ErrorKind::BrokenPipe));
            }
        }
        let n = self.step.min(buf.len()).min(self.data.len() - self.pos);
        buf[..n].copy_from_slice(&self.data[self.pos..self.pos + n]);
        self.pos += n;
        Ok(n)
    }
}
impl FmtX for fmt::Latin1 {
    const NAME: &'static str = "Latin1";
    fn convs() -> &'static [u8] {
        &[31]
    }
    fn conv<A: Atomicity>(w: u8, t: &mut Tendril<Self, A>) -> Obs {
        let mut o: Obs = vec![];
        if w == 31 {
            match t.try_as_subset::<fmt::ASCII>() {
                Ok(v) => o.push(("as_subset<ASCII>", bytes_of(v))),
                Err(()) => o.push(("as_subset<ASCII>-err", vec![])),
            }
            match t.clone().try_into_subset::<fmt::ASCII>() {
                Ok(v) => o.push(("into_subset<ASCII>", bytes_of(&v))),
                Err(orig) => o.push(("into_subset<ASCII>-err", bytes_of(&orig))),
            }
        }
        o
    }
    fn m_conv(w: u8, m: &mut Vec<u8>) -> Obs {
        let mut o: Obs = vec![];
        if w == 31 {
            if m.is_ascii() {
                o.push(("as_subset<ASCII>", m.clone()));
                o.push(("into_subset<ASCII>", m.clone()));
            } else {
                o.push(("as_subset<ASCII>-err", vec![]));
                o.push(("into_subset<ASCII>-err", m.clone()));
            }
        }
        o
    }
    fn lits() -> &'static [&'static [u8]] {
        &[L_A, L_9, L_HI]
    }
    fn push_lits() -> &'static [&'static [u8]] {
        &[L_A, L_9, L_HI]
    }
    fn m_valid(_: &[u8]) -> bool {
        true
    }
    fn m_boundary(_: &[u8], _: usize) -> bool {
        true
    }
    fn pop_front_char<A: Atomicity>(t: &mut Tendril<Self, A>) -> Option<Option<char>> {
        Some(t.pop_front_char())
    }
    fn m_pop_front_char(m: &mut Vec<u8>) -> Option<char> {
        byte_pop(m)
    }
    fn char_run<A: Atomicity>(t: &mut Tendril<Self, A>) -> Option<Option<(Tendril<Self, A>, bool)>> {
        Some(t.pop_front_char_run(classify))
    }
    fn m_char_run(m: &mut Vec<u8>) -> Option<(Vec<u8>, bool)> {
        let ch = m.iter().enumerate().map(|(i, b)| (i, *b as char)).collect();
        run_model(m, ch)
    }
    fn push_char<A: Atomicity>(t: &mut Tendril<Self, A>, c: char) -> Option<Result<(), ()>> {
        Some(t.try_push_char(c))
    }
    fn m_push_char(m: &mut Vec<u8>, c: char) -> Result<(), ()> {
        if (c as u32) > 0xFF {
            return Err(());
        }
        m.push(c as u32 as u8);
        Ok(())
    }
}
impl FmtX for fmt::ASCII {
    const NAME: &'static str = "ASCII";
    fn convs() -> &'static [u8] {
        &[30]
    }
    fn conv<A: Atomicity>(w: u8, t: &mut Tendril<Self, A>) -> Obs {
        let mut o: Obs = vec![];
        if w == 30 {
            o.push(("as_superset<UTF8>", bytes_of(t.as_superset::<fmt::UTF8>())));
            o.push(("as_superset<Latin1>", bytes_of(t.as_superset::<fmt::Latin1>())));
            let u = t.clone().into_superset::<fmt::UTF8>();
            o.push(("into_superset<UTF8>-str", u.as_ref().as_bytes().to_vec()));
            let own = String::from_utf8_lossy(&bytes_of(t)).into_owned();
            o.push(("eq-str", flag(*t == *own.as_str())));
            let longer = format!("{own}x");
            o.push(("ne-longer-str", flag(*t == *longer.as_str())));
        }
        o
    }
    fn m_conv(w: u8, m: &mut Vec<u8>) -> Obs {
        let mut o: Obs = vec![];
        if w == 30 {
            for l in ["as_superset<UTF8>", "as_superset<Latin1>", "into_superset<UTF8>-str"] {
                o.push((l, m.clone()));
            }
            o.push(("eq-str", flag(true)));
            o.push(("ne-longer-str", flag(false)));
        }
        o
    }
    fn lits() -> &'static [&'static [u8]] {
        &[L_A, L_9, L_HI]
    }
    fn push_lits() -> &'static [&'static [u8]] {
        &[L_A, L_9, L_HI]
    }
    fn m_valid(b: &[u8]) -> bool {
        b.iter().all(|x| *x < 0x80)
    }
    fn m_boundary(_: &[u8], _: usize) -> bool {
        true
    }
    fn pop_front_char<A: Atomicity>(t: &mut Tendril<Self, A>) -> Option<Option<char>> {
        Some(t.pop_front_char())
    }
    fn m_pop_front_char(m: &mut Vec<u8>) -> Option<char> {
        byte_pop(m)
    }
    fn char_run<A: Atomicity>(t: &mut Tendril<Self, A>) -> Option<Option<(Tendril<Self, A>, bool)>> {
        Some(t.pop_front_char_run(classify))
    }
    fn m_char_run(m: &mut Vec<u8>) -> Option<(Vec<u8>, bool)> {
        let ch = m.iter().enumerate().map(|(i, b)| (i, *b as char)).collect();
        run_model(m, ch)
    }
    fn push_char<A: Atomicity>(t: &mut Tendril<Self, A>, c: char) -> Option<Result<(), ()>> {
        Some(t.try_push_char(c))
    }
    fn m_push_char(m: &mut Vec<u8>, c: char) -> Result<(), ()> {
        if (c as u32) > 0x7F {
            return Err(());
        }
        m.push(c as u32 as u8);
        Ok(())
    }
}
impl FmtX for fmt::UTF8 {
    const NAME: &'static str = "UTF8";
    fn lits() -> &'static [&'static [u8]] {
        &[L_A, L_8, L_9, L_17, L_E, L_EURO, L_BAD]
    }
    fn push_lits() -> &'static [&'static [u8]] {
        &[L_A, L_9, L_E, L_BAD]
    }
    fn m_valid(b: &[u8]) -> bool {
        std::str::from_utf8(b).is_ok()
    }
    fn pop_front_char<A: Atomicity>(t: &mut Tendril<Self, A>) -> Option<Option<char>> {
        Some(t.pop_front_char())
    }
    fn m_pop_front_char(m: &mut Vec<u8>) -> Option<char> {
        utf8_pop(m)
    }
    fn char_run<A: Atomicity>(t: &mut Tendril<Self, A>) -> Option<Option<(Tendril<Self, A>, bool)>> {
        Some(t.pop_front_char_run(classify))
    }
    fn m_char_run(m: &mut Vec<u8>) -> Option<(Vec<u8>, bool)> {
        let ch = std::str::from_utf8(m).unwrap().char_indices().collect();
        run_model(m, ch)
    }
    fn push_char<A: Atomicity>(t: &mut Tendril<Self, A>, c: char) -> Option<Result<(), ()>> {
        // the generic CharFormat path; the inherent push_char runs in the Extend<char> battery
        Some(t.try_push_char(c))
    }
    fn m_push_char(m: &mut Vec<u8>, c: char) -> Result<(), ()> {
        let mut b = [0u8; 4];
        m.extend_from_slice(c.encode_utf8(&mut b).as_bytes());
        Ok(())
    }
    fn convs() -> &'static [u8] {
        &[10, 11, 12, 13, 14, 15]
    }
    fn cmp_x<A: Atomicity>(a: &Tendril<Self, A>, b: &Tendril<Self, A>) -> Option<std::cmp::Ordering> {
        if a.partial_cmp(b) != Some(a.cmp(b)) {
            return Some(std::cmp::Ordering::Equal).filter(|_| false).or(Some(a.cmp(b).reverse()));
        }
        Some(a.cmp(b))
    }
    fn conv<A: Atomicity>(w: u8, t: &mut Tendril<Self, A>) -> Obs {
        use std::fmt::Write;
        let mut o: Obs = vec![];
        match w {
            10 => {
                t.extend(U_CHARS.iter().copied());
                t.extend(std::iter::empty::<char>());
                let n: Tendril<Self, A> = U_CHARS.iter().copied().collect();
                o.push(("from-chars", bytes_of(&n)));
            },
            11 => {
                t.extend(U_STRS.iter().copied());
                let n: Tendril<Self, A> = U_STRS.iter().copied().collect();
                o.push(("from-strs", bytes_of(&n)));
            },
            12 => {
                o.push(("write_str", flag(t.write_str("xy").is_ok())));
                o.push(("write!", flag(write!(t, "{}-{}", 12, "\u{e9}").is_ok())));
                o.push(("write_char", flag(t.write_char('\u{20ac}').is_ok())));
            },
            13 => {
                let by_ref: String = String::from(&*t);
                o.push(("String::from(&t)", by_ref.into_bytes()));
                let by_val: String = String::from(t.clone());
                o.push(("String::from(t)", by_val.into_bytes()));
                o.push(("Display", format!("{}", t).into_bytes()));
                o.push(("Display-padded", format!("{:>12}|{:<3}", t, t).into_bytes()));
                let dbg = format!("{:?}", t);
                let kind_ok = ["Tendril<UTF8>(inline: ", "Tendril<UTF8>(owned: ", "Tendril<UTF8>(shared: "].iter().find(|p| dbg.starts_with(**p));
                o.push(("Debug-kind", flag(kind_ok.is_some())));
                o.push(("Debug-content", kind_ok.map(|p| dbg[p.len()..].as_bytes().to_vec()).unwrap_or_default()));
                let r: &str = t.as_ref();
                o.push(("AsRef<str>", r.as_bytes().to_vec()));
                let d: &str = &**t;
                o.push(("Deref", d.as_bytes().to_vec()));
                let b: &[u8] = std::borrow::Borrow::borrow(&*t);
                o.push(("Borrow<[u8]>", b.to_vec()));
                let own = d.to_string();
                o.push(("eq-str", flag(*t == *own.as_str())));
                let longer = format!("{own}x");
                o.push(("ne-longer-str", flag(*t == *longer.as_str())));
                if !own.is_empty() {
                    let mut other = own.clone();
                    let c = other.pop().unwrap();
                    other.push(if c == 'q' { 'r' } else { 'q' });
                    o.push(("ne-last-char", flag(*t == *other.as_str())));
                    o.push(("ne-prefix", flag(*t == own[..own.len() - c.len_utf8()])));
                }
            },
            14 => {
                let s: String = String::from(&*t);
                o.push(("From<String>", bytes_of(&Tendril::<Self, A>::from(s.clone()))));
                o.push(("From<&str>", bytes_of(&Tendril::<Self, A>::from(&s[..]))));
                o.push(("from_slice", bytes_of(&Tendril::<Self, A>::from_slice(&s))));
                match s.parse::<Tendril<Self, A>>() {
                    Ok(x) => o.push(("FromStr", bytes_of(&x))),
                    Err(()) => o.push(("FromStr-err", vec![])),
                }
                o.push(("to_tendril", bytes_of(&tendril::SliceExt::to_tendril(&s[..]))));
                o.push(("format_tendril", bytes_of(&tendril::format_tendril!("{}", s))));
                o.push(("format", bytes_of(&Tendril::<Self, A>::format(format_args!("<{}>{}", s, 7)))));
                for c in s.chars().take(3) {
                    o.push(("from_char", bytes_of(&Tendril::<Self, A>::from_char(c))));
                }
            },
            15 => {
                t.push_slice("\u{e9}!");
                o.push(("as_superset<WTF8>", bytes_of(t.as_superset::<fmt::WTF8>())));
                o.push(("into_superset<WTF8>", bytes_of(&t.clone().into_superset::<fmt::WTF8>())));
                match t.try_as_subset::<fmt::ASCII>() {
                    Ok(v) => o.push(("as_subset<ASCII>", bytes_of(v))),
                    Err(()) => o.push(("as_subset<ASCII>-err", vec![])),
                }
                t.pop_back(3);
                match t.try_as_subset::<fmt::ASCII>() {
                    Ok(v) => o.push(("as_subset<ASCII>", bytes_of(v))),
                    Err(()) => o.push(("as_subset<ASCII>-err", vec![])),
                }
                match t.clone().try_into_subset::<fmt::ASCII>() {
                    Ok(v) => o.push(("into_subset<ASCII>", bytes_of(&v))),
                    Err(orig) => o.push(("into_subset<ASCII>-err", bytes_of(&orig))),
                }
            },
            _ => {},
        }
        o
    }
    fn m_conv(w: u8, m: &mut Vec<u8>) -> Obs {
        let mut o: Obs = vec![];
        let s = String::from_utf8(m.clone()).unwrap();
        match w {
            10 => {
                let add: String = U_CHARS.iter().collect();
                m.extend_from_slice(add.as_bytes());
                o.push(("from-chars", add.into_bytes()));
            },
            11 => {
                let add: String = U_STRS.concat();
                m.extend_from_slice(add.as_bytes());
                o.push(("from-strs", add.into_bytes()));
            },
            12 => {
                m.extend_from_slice("xy12-\u{e9}\u{20ac}".as_bytes());
                o.push(("write_str", flag(true)));
                o.push(("write!", flag(true)));
                o.push(("write_char", flag(true)));
            },
            13 => {
                o.push(("String::from(&t)", m.clone()));
                o.push(("String::from(t)", m.clone()));
                o.push(("Display", m.clone()));
                o.push(("Display-padded", format!("{:>12}|{:<3}", s, s).into_bytes()));
                o.push(("Debug-kind", flag(true)));
                o.push(("Debug-content", format!("{:?})", s).into_bytes()));
                o.push(("AsRef<str>", m.clone()));
                o.push(("Deref", m.clone()));
                o.push(("Borrow<[u8]>", m.clone()));
                o.push(("eq-str", flag(true)));
                o.push(("ne-longer-str", flag(false)));
                if !s.is_empty() {
                    o.push(("ne-last-char", flag(false)));
                    o.push(("ne-prefix", flag(false)));
                }
            },
            14 => {
                for l in ["From<String>", "From<&str>", "from_slice", "FromStr", "to_tendril", "format_tendril"] {
                    o.push((l, m.clone()));
                }
                o.push(("format", format!("<{}>{}", s, 7).into_bytes()));
                for c in s.chars().take(3) {
                    o.push(("from_char", c.to_string().into_bytes()));
                }
            },
            15 => {
                m.extend_from_slice("\u{e9}!".as_bytes());
                o.push(("as_superset<WTF8>", m.clone()));
                o.push(("into_superset<WTF8>", m.clone()));
                o.push(("as_subset<ASCII>-err", vec![]));
                m.truncate(m.len() - 3);
                if m.is_ascii() {
                    o.push(("as_subset<ASCII>", m.clone()));
                    o.push(("into_subset<ASCII>", m.clone()));
                } else {
                    o.push(("as_subset<ASCII>-err", vec![]));
                    o.push(("into_subset<ASCII>-err", m.clone()));
                }
            },
            _ => {},
        }
        o
    }
    fn write_first<A: Atomicity>(t: &mut Tendril<Self, A>) -> bool {
        let s: &mut str = &mut *t;
        if !s.is_empty() && s.is_char_boundary(1) {
            s[..1].make_ascii_uppercase();
        }
        true
    }
}
fn wtf8_valid(b: &[u8]) -> bool {
    // generalized UTF-8 (surrogates allowed) without a lead surrogate
    // directly followed by a trail surrogate
    let mut i = 0;
    let mut prev_lead = false;
    while i < b.len() {
        let x = b[i];
        let n = if x < 0x80 {
            1
        } else if (0xC2..=0xDF).contains(&x) {
            2
        } else if (0xE0..=0xEF).contains(&x) {
            3
        } else if (0xF0..=0xF4).contains(&x) {
            4
        } else {
            return false;
        };
        if i + n > b.len() {
            return false;
        }
        for k in 1..n {
            if b[i + k] & 0xC0 != 0x80 {
                return false;
            }
        }
        let mut lead = false;
        if n == 3 {
            if x == 0xE0 && b[i + 1] < 0xA0 {
                return false;
            }
            if x == 0xED && b[i + 1] >= 0xA0 {
                if b[i + 1] < 0xB0 {
                    lead = true;
                } else if prev_lead {
                    return false;
                }
            }
        }
        if n == 4 {
            if x == 0xF0 && b[i + 1] < 0x90 {
                return false;
            }
            if x == 0xF4 && b[i + 1] > 0x8F {
                return false;
            }
        }
        prev_lead = lead;
        i += n;
    }
    true
}
impl FmtX for fmt::WTF8 {
    const NAME: &'static str = "WTF8";
    const HASH_AS_BYTES: bool = false;
    fn convs() -> &'static [u8] {
        &[32]
    }
    fn conv<A: Atomicity>(w: u8, t: &mut Tendril<Self, A>) -> Obs {
        let mut o: Obs = vec![];
        if w == 32 {
            match t.try_as_subset::<fmt::UTF8>() {
                Ok(v) => o.push(("as_subset<UTF8>", bytes_of(v))),
                Err(()) => o.push(("as_subset<UTF8>-err", vec![])),
            }
            match t.clone().try_into_subset::<fmt::UTF8>() {
                Ok(v) => o.push(("into_subset<UTF8>", bytes_of(&v))),
                Err(orig) => o.push(("into_subset<UTF8>-err", bytes_of(&orig))),
            }
        }
        o
    }
    fn m_conv(w: u8, m: &mut Vec<u8>) -> Obs {
        let mut o: Obs = vec![];
        if w == 32 {
            if std::str::from_utf8(m).is_ok() {
                o.push(("as_subset<UTF8>", m.clone()));
                o.push(("into_subset<UTF8>", m.clone()));
            } else {
                o.push(("as_subset<UTF8>-err", vec![]));
                o.push(("into_subset<UTF8>-err", m.clone()));
            }
        }
        o
    }
    fn lits() -> &'static [&'static [u8]] {
        &[L_A, L_9, L_LEAD, L_TRAIL, L_LEAD9, L_PAIR]
    }
    fn push_lits() -> &'static [&'static [u8]] {
        &[L_A, L_LEAD, L_TRAIL, L_9]
    }
    fn m_valid(b: &[u8]) -> bool {
        wtf8_valid(b)
    }
    fn m_push(m: &mut Vec<u8>, add: &[u8]) {
        let n = m.len();
        if n >= 3 && add.len() >= 3 && m[n - 3] == 0xED && (0xA0..0xB0).contains(&m[n - 2])
            && add[0] == 0xED && (0xB0..0xC0).contains(&add[1])
        {
            let hi = (((m[n - 2] & 0x0F) as u32) << 6) | (m[n - 1] & 0x3F) as u32;
            let lo = (((add[1] & 0x0F) as u32) << 6) | (add[2] & 0x3F) as u32;
            let c = char::from_u32(0x10000 + (hi << 10) + lo).unwrap();
            m.truncate(n - 3);
            let mut b = [0u8; 4];
            m.extend_from_slice(c.encode_utf8(&mut b).as_bytes());
            m.extend_from_slice(&add[3..]);
        } else {
            m.extend_from_slice(add);
        }
    }
}

const SUBS: &[(u32, u32)] = &[(0, 1), (1, 1), (0, 9), (1, 9), (2, 10), (8, 9), (1, 0), (3, 40)];
const POPS: &[u32] = &[1, 2, 9, 40, 0];
const CHARS: &[char] = &['b', '\u{e9}', '\u{1F600}'];

#[derive(Clone, Copy, Debug, PartialEq, Eq)]
pub enum Op {
    Make(u8, u8),
    PushBytes(u8, u8),
    PushTendril(u8, u8),
    CloneTo(u8, u8),
    Sub(u8, u8),
    SubPanic(u8, u8),
    PopFront(u8, u8),
    PopBack(u8, u8),
    PopFrontPanic(u8, u8),
    PopFrontChar(u8),
    CharRun(u8),
    Clear(u8),
    Reserve(u8),
    DropSlot(u8),
    Send(u8),
    PushChar(u8, u8),
    WriteFirst(u8),
    ExtendByte(u8),
    Swap01,
    /// a tendril of exactly n ASCII bytes (length ladder; prefix-only)
    MakeN(u8, u32),
    /// conversion / trait battery `which` on slot (leaf-only: never extended by the DFS)
    Conv(u8, u8),
    /// `real[d].clone_from(&real[s])`
    CloneFrom(u8, u8),
    /// a request whose size computation overflows (capacity above 2^31): documented panic, nothing may change
    Overflow(u8, u8),
}

/// lengths on and next to the inline limit and every power of two (buffer growth boundaries)
pub fn ladder(thorough: bool) -> Vec<u32> {
    let mut v: Vec<u32> = (0..=40).collect();
    for k in 4..=if thorough { 16 } else { 11 } {
        let p = 1u32 << k;
        for d in [-13i64, -12, -9, -8, -1, 0, 1, 4] {
            v.push((p as i64 + d) as u32);
        }
    }
    v.sort();
    v.dedup();
    v
}

pub fn ladder_prefixes(n: u32) -> Vec<Vec<Op>> {
    vec![
        vec![Op::MakeN(0, n)],
        vec![Op::MakeN(0, n), Op::CloneTo(0, 1)],
        vec![Op::MakeN(0, n), Op::PopFront(0, 0)],
        vec![Op::MakeN(0, n), Op::Reserve(0), Op::CloneTo(0, 1)],
    ]
}

pub fn alphabet<F: FmtX>() -> Vec<Op> {
    let mut v = vec![];
    for l in 0..F::lits().len() as u8 {
        v.push(Op::Make(0, l));
    }
    for l in 0..F::lits().len() as u8 {
        v.push(Op::Make(1, l));
    }
    for s in 0..2u8 {
        v.push(Op::CloneTo(s, 2));
        v.push(Op::CloneTo(s, 1 - s));
    }
    for s in 0..2u8 {
        for i in 0..SUBS.len() as u8 {
            v.push(Op::Sub(s, i));
        }
    }
    v.push(Op::SubPanic(0, 3));
    v.push(Op::SubPanic(0, 7));
    for s in 0..2u8 {
        for i in 0..POPS.len() as u8 {
            v.push(Op::PopFront(s, i));
            v.push(Op::PopBack(s, i));
        }
    }
    v.push(Op::PopFrontPanic(0, 0));
    v.push(Op::PopFrontPanic(0, 3));
    for s in 0..2u8 {
        for l in 0..F::push_lits().len() as u8 {
            v.push(Op::PushBytes(s, l));
        }
        v.push(Op::PushTendril(s, 1 - s));
        v.push(Op::PushTendril(s, 2));
        v.push(Op::PopFrontChar(s));
        v.push(Op::CharRun(s));
        v.push(Op::Clear(s));
        v.push(Op::Reserve(s));
        v.push(Op::DropSlot(s));
        v.push(Op::Send(s));
        for c in 0..CHARS.len() as u8 {
            v.push(Op::PushChar(s, c));
        }
        v.push(Op::WriteFirst(s));
        v.push(Op::ExtendByte(s));
    }
    v.push(Op::DropSlot(2));
    v.push(Op::PushTendril(2, 0));
    v.push(Op::Swap01);
    for (d, s) in [(0u8, 1u8), (1, 0), (2, 0), (0, 2)] {
        v.push(Op::CloneFrom(d, s));
    }
    for k in 0..4u8 {
        v.push(Op::Overflow(0, k));
    }
    for s in 0..2u8 {
        for &w in GENERIC_CONVS.iter().chain(F::convs()) {
            v.push(Op::Conv(s, w));
        }
    }
    v
}

pub struct Pool<F: FmtX, A: Atomicity> {
    pub real: [Option<Tendril<F, A>>; 3],
    pub model: [Option<Vec<u8>>; 3],
}

pub enum Outcome {
    Disabled,
    Ok,
    Bad(String, String),
}

fn sub_model<F: FmtX>(m: &[u8], off: u32, len: u32) -> Result<Vec<u8>, SubtendrilError> {
    let l = m.len() as u32;
    if off > l || len > l - off {
        return Err(SubtendrilError::OutOfBounds);
    }
    let (a, b) = (off as usize, (off + len) as usize);
    if len > 0 && !(F::m_boundary(m, a) && F::m_boundary(m, b)) {
        return Err(SubtendrilError::ValidationFailed);
    }
    Ok(m[a..b].to_vec())
}

impl<F: FmtX, A: Atomicity> Pool<F, A> {
    pub fn new() -> Self {
        Pool {
            real: [None, None, None],
            model: [None, None, None],
        }
    }

    /// apply one op to both sides; compare the op's own result
    pub fn apply(&mut self, op: Op, mon: &dyn Monitor) -> Outcome {
        macro_rules! need {
            ($s:expr) => {
                if self.real[$s as usize].is_none() {
                    return Outcome::Disabled;
                }
            };
        }
        macro_rules! real {
            ($e:expr) => {{
                mon.enter();
                let r = guarded(|| $e);
                mon.leave();
                r
            }};
        }
        macro_rules! bad {
            ($k:expr, $($a:tt)*) => { return Outcome::Bad($k.to_string(), format!($($a)*)) };
        }
        match op {
            Op::Make(s, l) => {
                let lit = F::lits()[l as usize];
                let r = real!(Tendril::<F, A>::try_from_byte_slice(lit));
                let want = F::m_valid(lit);
                match r {
                    Err(p) => bad!("panic", "try_from_byte_slice panicked: {p}"),
                    Ok(Ok(t)) => {
                        if !want {
                            bad!("accepted-invalid", "try_from_byte_slice accepted {lit:?}");
                        }
                        mon.enter();
                        self.real[s as usize] = Some(t);
                        mon.leave();
                        self.model[s as usize] = Some(lit.to_vec());
                    },
                    Ok(Err(())) => {
                        if want {
                            bad!("rejected-valid", "try_from_byte_slice rejected {lit:?}");
                        }
                    },
                }
            },
            Op::MakeN(s, n) => {
                let lit: Vec<u8> = (0..n).map(|i| b'a' + (i % 23) as u8).collect();
                match real!(Tendril::<F, A>::try_from_byte_slice(&lit)) {
                    Err(p) => bad!("panic", "try_from_byte_slice({n} bytes) panicked: {p}"),
                    Ok(Ok(t)) => {
                        mon.enter();
                        self.real[s as usize] = Some(t);
                        mon.leave();
                        self.model[s as usize] = Some(lit);
                    },
                    Ok(Err(())) => bad!("rejected-valid", "try_from_byte_slice rejected {n} ASCII bytes"),
                }
            },
            Op::PushBytes(s, l) => {
                need!(s);
                let lit = F::push_lits()[l as usize];
                let t = self.real[s as usize].as_mut().unwrap();
                let r = real!(t.try_push_bytes(lit));
                let want = F::m_valid(lit);
                match r {
                    Err(p) => bad!("panic", "try_push_bytes panicked: {p}"),
                    Ok(Ok(())) => {
                        if !want {
                            bad!("accepted-invalid", "try_push_bytes accepted {lit:?}");
                        }
                        F::m_push(self.model[s as usize].as_mut().unwrap(), lit);
                    },
                    Ok(Err(())) => {
                        if want {
                            bad!("rejected-valid", "try_push_bytes rejected {lit:?}");
                        }
                    },
                }
            },
            Op::PushTendril(d, s) => {
                need!(d);
                need!(s);
                if d == s {
                    return Outcome::Disabled;
                }
                let (a, b) = if d < s {
                    let (x, y) = self.real.split_at_mut(s as usize);
                    (x[d as usize].as_mut().unwrap(), y[0].as_ref().unwrap())
                } else {
                    let (x, y) = self.real.split_at_mut(d as usize);
                    (y[0].as_mut().unwrap(), x[s as usize].as_ref().unwrap())
                };
                if let Err(p) = real!(a.push_tendril(b)) {
                    bad!("panic", "push_tendril panicked: {p}");
                }
                let add = self.model[s as usize].clone().unwrap();
                F::m_push(self.model[d as usize].as_mut().unwrap(), &add);
            },
            Op::CloneTo(s, d) => {
                need!(s);
                let t = self.real[s as usize].as_ref().unwrap();
                match real!(t.clone()) {
                    Err(p) => bad!("panic", "clone panicked: {p}"),
                    Ok(c) => {
                        mon.enter();
                        self.real[d as usize] = Some(c);
                        mon.leave();
                    },
                }
                self.model[d as usize] = self.model[s as usize].clone();
            },
            Op::Sub(s, i) | Op::SubPanic(s, i) => {
                need!(s);
                let (off, len) = SUBS[i as usize];
                let want = sub_model::<F>(self.model[s as usize].as_ref().unwrap(), off, len);
                let t = self.real[s as usize].as_ref().unwrap();
                let got = if let Op::Sub(..) = op {
                    match real!(t.try_subtendril(off, len)) {
                        Err(p) => bad!("panic", "try_subtendril({off},{len}) panicked: {p}"),
                        Ok(r) => r,
                    }
                } else {
                    match real!(t.subtendril(off, len)) {
                        Err(_) => Err(SubtendrilError::OutOfBounds),
                        Ok(r) => Ok(r),
                    }
                };
                match (want, got) {
                    (Ok(w), Ok(g)) => {
                        mon.enter();
                        self.real[2] = Some(g);
                        mon.leave();
                        self.model[2] = Some(w);
                    },
                    (Err(we), Err(ge)) => {
                        if let Op::Sub(..) = op {
                            if we != ge {
                                bad!("wrong-error", "try_subtendril({off},{len}): model {we:?} real {ge:?}");
                            }
                        }
                    },
                    (Ok(_), Err(e)) => bad!("rejected-valid", "subtendril({off},{len}) failed {e:?} but model allows it"),
                    (Err(e), Ok(_)) => bad!("accepted-invalid", "subtendril({off},{len}) succeeded but model says {e:?}"),
                }
            },
            Op::PopFront(s, i) | Op::PopBack(s, i) | Op::PopFrontPanic(s, i) => {
                need!(s);
                let n = POPS[i as usize];
                let m = self.model[s as usize].as_mut().unwrap();
                let l = m.len() as u32;
                let front = !matches!(op, Op::PopBack(..));
                let want: Result<(), SubtendrilError> = if n > l {
                    Err(SubtendrilError::OutOfBounds)
                } else {
                    let cut = if front { n as usize } else { (l - n) as usize };
                    if !F::m_boundary(m, cut) {
                        Err(SubtendrilError::ValidationFailed)
                    } else {
                        Ok(())
                    }
                };
                let t = self.real[s as usize].as_mut().unwrap();
                let got = match op {
                    Op::PopFront(..) => match real!(t.try_pop_front(n)) {
                        Err(p) => bad!("panic", "try_pop_front({n}) panicked: {p}"),
                        Ok(r) => r,
                    },
                    Op::PopBack(..) => match real!(t.try_pop_back(n)) {
                        Err(p) => bad!("panic", "try_pop_back({n}) panicked: {p}"),
                        Ok(r) => r,
                    },
                    _ => match real!(t.pop_front(n)) {
                        Err(_) => Err(want.err().unwrap_or(SubtendrilError::OutOfBounds)),
                        Ok(()) => Ok(()),
                    },
                };
                match (want, got) {
                    (Ok(()), Ok(())) => {
                        if front {
                            m.drain(..n as usize);
                        } else {
                            m.truncate((l - n) as usize);
                        }
                    },
                    (Err(we), Err(ge)) => {
                        if !matches!(op, Op::PopFrontPanic(..)) && we != ge {
                            bad!("wrong-error", "{op:?}: model {we:?} real {ge:?}");
                        }
                    },
                    (w, g) => bad!("wrong-result", "{op:?} n={n}: model {w:?} real {g:?}"),
                }
            },
            Op::PopFrontChar(s) => {
                need!(s);
                let t = self.real[s as usize].as_mut().unwrap();
                let r = real!(F::pop_front_char(t));
                match r {
                    Err(p) => bad!("panic", "pop_front_char panicked: {p}"),
                    Ok(None) => return Outcome::Disabled,
                    Ok(Some(g)) => {
                        let w = F::m_pop_front_char(self.model[s as usize].as_mut().unwrap());
                        if w != g {
                            bad!("return-value", "pop_front_char: model {w:?} real {g:?}");
                        }
                    },
                }
            },
            Op::CharRun(s) => {
                need!(s);
                let t = self.real[s as usize].as_mut().unwrap();
                let r = real!(F::char_run(t));
                match r {
                    Err(p) => bad!("panic", "pop_front_char_run panicked: {p}"),
                    Ok(None) => return Outcome::Disabled,
                    Ok(Some(g)) => {
                        let w = F::m_char_run(self.model[s as usize].as_mut().unwrap());
                        match (w, g) {
                            (None, None) => {},
                            (Some((wb, wc)), Some((gt, gc))) => {
                                if wc != gc {
                                    bad!("return-value", "char_run class: model {wc} real {gc}");
                                }
                                mon.enter();
                                self.real[2] = Some(gt);
                                mon.leave();
                                self.model[2] = Some(wb);
                            },
                            (w, g) => bad!("return-value", "char_run: model some={} real some={}", w.is_some(), g.is_some()),
                        }
                    },
                }
            },
            Op::Clear(s) => {
                need!(s);
                let t = self.real[s as usize].as_mut().unwrap();
                if let Err(p) = real!(t.clear()) {
                    bad!("panic", "clear panicked: {p}");
                }
                self.model[s as usize].as_mut().unwrap().clear();
            },
            Op::Reserve(s) => {
                need!(s);
                let t = self.real[s as usize].as_mut().unwrap();
                if let Err(p) = real!(t.reserve(20)) {
                    bad!("panic", "reserve panicked: {p}");
                }
            },
            Op::DropSlot(s) => {
                need!(s);
                let t = self.real[s as usize].take();
                if let Err(p) = real!(drop(t)) {
                    bad!("panic", "drop panicked: {p}");
                }
                self.model[s as usize] = None;
            },
            Op::Send(s) => {
                need!(s);
                let t = self.real[s as usize].take().unwrap();
                let r = real!({
                    let st: SendTendril<F> = if s == 0 { t.into_send() } else { SendTendril::from(t) };
                    let back: Tendril<F, A> = Tendril::from(st);
                    back
                });
                match r {
                    Err(p) => bad!("panic", "into_send round trip panicked: {p}"),
                    Ok(b) => {
                        // what makes a SendTendril Send: its buffer is referenced by nothing else
                        let shared = b.is_shared() || self.real.iter().flatten().any(|o| b.is_shared_with(o));
                        mon.enter();
                        self.real[s as usize] = Some(b);
                        mon.leave();
                        if shared {
                            bad!("send-not-unique", "the tendril that went through SendTendril still shares its buffer with another tendril");
                        }
                    },
                }
            },
            Op::PushChar(s, c) => {
                need!(s);
                let ch = CHARS[c as usize];
                let t = self.real[s as usize].as_mut().unwrap();
                match real!(F::push_char(t, ch)) {
                    Err(p) => bad!("panic", "push_char panicked: {p}"),
                    Ok(None) => return Outcome::Disabled,
                    Ok(Some(g)) => {
                        let w = F::m_push_char(self.model[s as usize].as_mut().unwrap(), ch);
                        if w != g {
                            bad!("return-value", "try_push_char({ch:?}): model {w:?} real {g:?}");
                        }
                    },
                }
            },
            Op::WriteFirst(s) => {
                need!(s);
                let t = self.real[s as usize].as_mut().unwrap();
                match real!(F::write_first(t)) {
                    Err(p) => bad!("panic", "deref_mut write panicked: {p}"),
                    Ok(false) => return Outcome::Disabled,
                    Ok(true) => {
                        let m = self.model[s as usize].as_mut().unwrap();
                        if !m.is_empty() {
                            m[0] = m[0].to_ascii_uppercase();
                        }
                    },
                }
            },
            Op::ExtendByte(s) => {
                need!(s);
                let t = self.real[s as usize].as_mut().unwrap();
                match real!(F::extend_byte(t)) {
                    Err(p) => bad!("panic", "extend_with_byte panicked: {p}"),
                    Ok(false) => return Outcome::Disabled,
                    Ok(true) => self.model[s as usize].as_mut().unwrap().extend_from_slice(b"zzz"),
                }
            },
            Op::CloneFrom(d, s) => {
                need!(d);
                need!(s);
                if d == s {
                    return Outcome::Disabled;
                }
                let (a, b) = if d < s {
                    let (x, y) = self.real.split_at_mut(s as usize);
                    (x[d as usize].as_mut().unwrap(), y[0].as_ref().unwrap())
                } else {
                    let (x, y) = self.real.split_at_mut(d as usize);
                    (y[0].as_mut().unwrap(), x[s as usize].as_ref().unwrap())
                };
                if let Err(p) = real!(a.clone_from(b)) {
                    bad!("panic", "clone_from panicked: {p}");
                }
                self.model[d as usize] = self.model[s as usize].clone();
            },
            Op::Overflow(s, k) => {
                need!(s);
                const HUGE: u32 = 0x9000_0000;
                let t = self.real[s as usize].as_mut().unwrap();
                // (may decline, must panic)
                let r: Result<Option<Tendril<F, A>>, String> = match k {
                    0 => real!({
                        t.reserve(u32::MAX);
                        None
                    }),
                    1 => real!({
                        t.reserve(HUGE);
                        None
                    }),
                    2 => {
                        if !F::HAS_EXTEND_BYTE {
                            return Outcome::Disabled;
                        }
                        real!({
                            F::extend_huge(t, HUGE);
                            None
                        })
                    },
                    _ => real!(Some(Tendril::<F, A>::with_capacity(HUGE))),
                };
                match r {
                    Err(p) => {
                        if !p.contains("overflow in buffer arithmetic") {
                            bad!("panic", "{op:?}: undocumented panic: {p}");
                        }
                    },
                    Ok(x) => {
                        // a reservation is only a suggestion (a shared or empty-handed tendril may decline it);
                        // growing the content or creating the buffer cannot succeed without 2.25 GiB
                        if k >= 2 {
                            mon.enter();
                            drop(x);
                            mon.leave();
                            bad!("accepted-invalid", "{op:?} returned normally");
                        }
                    },
                }
            },
            Op::Conv(s, w) => {
                need!(s);
                if s > 1 {
                    return Outcome::Disabled;
                }
                let o1 = (1 - s) as usize;
                let mut t = self.real[s as usize].take().unwrap();
                let r = {
                    let oth = [self.real[o1].as_ref(), self.real[2].as_ref()];
                    let tr = &mut t;
                    real!(if w < 10 { g_real::<F, A>(w, tr, oth) } else { (F::conv(w, tr), None) })
                };
                mon.enter();
                self.real[s as usize] = Some(t);
                mon.leave();
                let (robs, rnew) = match r {
                    Err(p) => bad!("panic", "conversion battery {w} panicked: {p}"),
                    Ok(x) => x,
                };
                let (mobs, mnew) = {
                    let mut m = self.model[s as usize].take().unwrap();
                    let oth = [self.model[o1].as_ref(), self.model[2].as_ref()];
                    let x = if w < 10 { g_model::<F>(w, &mut m, oth) } else { (F::m_conv(w, &mut m), None) };
                    self.model[s as usize] = Some(m);
                    x
                };
                if let Some(n) = rnew {
                    mon.enter();
                    self.real[2] = Some(n);
                    mon.leave();
                }
                if let Some(n) = mnew {
                    self.model[2] = Some(n);
                }
                let d = obs_diff::<F>(&robs, &mobs);
                mon.enter();
                drop(robs);
                mon.leave();
                if let Some(d) = d {
                    bad!("conversion", "battery {w} on slot {s}: {d}");
                }
            },
            Op::Swap01 => {
                if self.real[0].is_none() && self.real[1].is_none() {
                    return Outcome::Disabled;
                }
                self.real.swap(0, 1);
                self.model.swap(0, 1);
            },
        }
        Outcome::Ok
    }

    /// full-state oracle: every live slot holds exactly the model's bytes
    pub fn check(&self) -> Option<(String, String)> {
        for i in 0..3 {
            match (&self.real[i], &self.model[i]) {
                (None, None) => {},
                (Some(t), Some(m)) => {
                    let b: &[u8] = t.as_bytes();
                    if b != &m[..] {
                        return Some(("content".into(), format!("slot {i}: model {m:?} real {b:?}")));
                    }
                    if t.len32() as usize != m.len() {
                        return Some(("len32".into(), format!("slot {i}: {} vs {}", t.len32(), m.len())));
                    }
                    if !F::m_valid(b) {
                        return Some(("invalid-format".into(), format!("slot {i} holds {b:?}, invalid for {}", F::NAME)));
                    }
                },
                _ => return Some(("slot-liveness".into(), format!("slot {i}"))),
            }
        }
        None
    }

    pub fn shape(&self) -> u32 {
        let mut k = 0u32;
        for i in 0..3 {
            let c = match &self.real[i] {
                None => 0,
                Some(t) => {
                    if t.is_shared() {
                        3
                    } else if t.len32() > 8 {
                        2
                    } else {
                        1
                    }
                },
            };
            k = k * 4 + c;
        }
        for (a, b) in [(0, 1), (0, 2), (1, 2)] {
            let sh = match (&self.real[a], &self.real[b]) {
                (Some(x), Some(y)) => x.is_shared_with(y),
                _ => false,
            };
            k = k * 2 + sh as u32;
        }
        k
    }
}

pub struct Counters {
    pub execs: AtomicU64,
    pub ops: AtomicU64,
    pub shapes: Mutex<BTreeSet<u32>>,
}

pub fn render(ops: &[Op], seq: &[u16]) -> String {
    seq.iter()
        .map(|&s| format!("{:?}", ops[s as usize]))
        .collect::<Vec<_>>()
        .join("; ")
}

/// Execute one sequence from scratch. Returns false if the last op is disabled.
pub fn exec<F: FmtX, A: Atomicity>(
    ctx: &Ctx,
    job: &str,
    ops: &[Op],
    prefix: &[Op],
    seq: &[u16],
    mon: &dyn Monitor,
    cnt: &Counters,
    shapes: &mut BTreeSet<u32>,
) -> bool {
    mon.begin();
    let mut pool: Pool<F, A> = Pool::new();
    let mut enabled = true;
    let mut failed: Option<(String, String)> = None;
    let total = prefix.len() + seq.len();
    for i in 0..total {
        let op = if i < prefix.len() {
            prefix[i]
        } else {
            ops[seq[i - prefix.len()] as usize]
        };
        let last = i + 1 == total;
        match pool.apply(op, mon) {
            Outcome::Disabled => {
                if last || i < prefix.len() {
                    enabled = false;
                }
            },
            Outcome::Ok => {},
            Outcome::Bad(k, m) => {
                if last || i < prefix.len() {
                    failed = Some((k, m));
                } else {
                    // a prefix that failed was reported (and pruned) earlier
                    enabled = false;
                }
                break;
            },
        }
        if last {
            if let Some(e) = pool.check() {
                failed = Some(e);
            }
            if let Some(m) = mon.after_op() {
                failed = failed.or(Some(("allocator".into(), m)));
            }
        }
    }
    if enabled && failed.is_none() {
        shapes.insert(pool.shape());
    }
    mon.enter();
    let d = guarded(|| drop(std::mem::replace(&mut pool.real, [None, None, None])));
    mon.leave();
    if let Err(p) = d {
        failed = failed.or(Some(("panic".into(), format!("drop of pool panicked: {p}"))));
    }
    if let Some(m) = mon.end() {
        failed = failed.or(Some(("allocator".into(), m)));
    }
    cnt.execs.fetch_add(1, Ordering::Relaxed);
    cnt.ops.fetch_add(total as u64, Ordering::Relaxed);
    if let Some((k, m)) = failed {
        let w = format!(
            "{job}: {}",
            prefix
                .iter()
                .map(|o| format!("{o:?}"))
                .chain(seq.iter().map(|&s| format!("{:?}", ops[s as usize])))
                .collect::<Vec<_>>()
                .join("; ")
        );
        ctx.violation(&k, &w, json!({ "message": m }));
        return false;
    }
    enabled
}

fn dfs<F: FmtX, A: Atomicity>(
    ctx: &Ctx,
    job: &str,
    ops: &[Op],
    prefix: &[Op],
    seq: &mut Vec<u16>,
    depth: usize,
    mon: &dyn Monitor,
    cnt: &Counters,
    shapes: &mut BTreeSet<u32>,
) {
    if !seq.is_empty() || !prefix.is_empty() {
        if !exec::<F, A>(ctx, job, ops, prefix, seq, mon, cnt, shapes) {
            return;
        }
    }
    if seq.len() >= depth {
        return;
    }
    if let Some(&l) = seq.last() {
        if matches!(ops[l as usize], Op::Conv(..)) {
            return;
        }
    }
    for s in 0..ops.len() as u16 {
        seq.push(s);
        dfs::<F, A>(ctx, job, ops, prefix, seq, depth, mon, cnt, shapes);
        seq.pop();
    }
}

/// representation witnesses: prefixes that put the pool into a particular
/// representation before the exhaustive suffix starts
pub fn witnesses<F: FmtX>() -> Vec<Vec<Op>> {
    let n = F::lits().len() as u8;
    let big = (0..n).find(|&i| F::lits()[i as usize].len() >= 9 && F::m_valid(F::lits()[i as usize])).unwrap();
    let huge = (0..n).rev().find(|&i| F::lits()[i as usize].len() >= 9 && F::lits()[i as usize].is_ascii()).unwrap();
    vec![
        vec![Op::Make(0, huge), Op::Reserve(0)],                       // owned with spare capacity
        vec![Op::Make(0, huge), Op::CloneTo(0, 1)],                    // shared pair
        vec![Op::Make(0, huge), Op::CloneTo(0, 1), Op::PopFront(1, 0)], // shared + offset
        vec![Op::Make(0, huge), Op::PushBytes(0, 1), Op::Sub(0, 2), Op::PopFront(0, 2)], // adjacent shared slices: slot2=[0,9) slot0=[9,..)
        vec![Op::Make(0, huge), Op::PushBytes(0, 1), Op::Sub(0, 2), Op::PopFront(0, 2), Op::Swap01, Op::CloneTo(2, 0)], // slot0=[0,9), slot1=[9,..): push_tendril(0,1) merges
        vec![Op::Make(0, big), Op::PopBack(0, 0)],                      // owned -> shared by pop_back
        vec![Op::Make(0, big), Op::Send(0)],
        vec![Op::Make(0, huge), Op::CloneTo(0, 1), Op::CloneTo(0, 2)],  // triple share
        vec![Op::Make(0, huge), Op::CharRun(0)],
    ]
}

pub fn explore<F: FmtX, A: Atomicity>(
    ctx: &Ctx,
    aname: &str,
    depth: usize,
    wdepth: usize,
    ladder_depth: usize,
    mon: &(dyn Monitor),
    cnt: &Counters,
) -> serde_json::Value {
    let ops = alphabet::<F>();
    let job = format!("{}/{}", F::NAME, aname);
    let t0 = std::time::Instant::now();
    let e0 = cnt.execs.load(Ordering::Relaxed);
    // job 1: all sequences of length <= depth from the empty pool
    let firsts: Vec<(u16, u16)> = (0..ops.len() as u16)
        .flat_map(|a| (0..ops.len() as u16).map(move |b| (a, b)))
        .collect();
    // length-1 sequences first (sequentially), then parallel over 2-prefixes
    let mut sh = BTreeSet::new();
    let mut alive1 = vec![];
    for a in 0..ops.len() as u16 {
        if exec::<F, A>(ctx, &job, &ops, &[], &[a], mon, cnt, &mut sh) {
            alive1.push(a);
        }
    }
    cnt.shapes.lock().unwrap().extend(sh);
    if depth >= 2 {
        firsts.par_iter().for_each(|&(a, b)| {
            if !alive1.contains(&a) {
                return;
            }
            let mut sh = BTreeSet::new();
            let mut seq = vec![a, b];
            dfs::<F, A>(ctx, &job, &ops, &[], &mut seq, depth, mon, cnt, &mut sh);
            cnt.shapes.lock().unwrap().extend(sh);
        });
    }
    let e1 = cnt.execs.load(Ordering::Relaxed);
    // job 2: from representation witnesses
    let ws = witnesses::<F>();
    let tasks: Vec<(usize, u16)> = (0..ws.len())
        .flat_map(|w| (0..ops.len() as u16).map(move |a| (w, a)))
        .collect();
    tasks.par_iter().for_each(|&(w, a)| {
        let mut sh = BTreeSet::new();
        let mut seq = vec![a];
        dfs::<F, A>(ctx, &job, &ops, &ws[w], &mut seq, wdepth, mon, cnt, &mut sh);
        cnt.shapes.lock().unwrap().extend(sh);
    });
    let e2 = cnt.execs.load(Ordering::Relaxed);
    // job 3: length ladder (all ops x all ops after a tendril of every ladder length, in four representations)
    let lad = if ladder_depth > 0 { ladder(ctx.tier == Tier::Thorough && !ctx.replay_mode) } else { vec![] };
    let ltasks: Vec<(u32, usize)> = lad.iter().flat_map(|&n| (0..4usize).map(move |p| (n, p))).collect();
    ltasks.par_iter().for_each(|&(n, p)| {
        let mut sh = BTreeSet::new();
        let pre = &ladder_prefixes(n)[p];
        let mut seq = vec![];
        dfs::<F, A>(ctx, &job, &ops, pre, &mut seq, ladder_depth, mon, cnt, &mut sh);
        cnt.shapes.lock().unwrap().extend(sh);
    });
    // big ladder: lengths around the powers of two up to 256 Ki (4 Mi thorough), one further operation
    // (allocator thresholds and growth rounding far above anything a depth-bounded search builds up)
    let big: Vec<u32> = if ladder_depth >= 2 {
        let top = if ctx.tier == Tier::Thorough { 22 } else { 18 };
        let mut v = vec![];
        for k in 12..=top {
            let p = 1u32 << k;
            for d in [-17i64, -16, -15, -9, -8, -1, 0, 1] {
                v.push((p as i64 + d) as u32);
            }
        }
        v
    } else if ctx.replay_mode {
        // valgrind pass-through: two powers of two are enough to cross the allocator's size classes
        [4096u32 - 1, 4096, 4097, 8192 - 16, 8192, 8193].to_vec()
    } else {
        vec![]
    };
    let btasks: Vec<(u32, usize)> = big.iter().flat_map(|&n| (0..4usize).map(move |p| (n, p))).collect();
    btasks.par_iter().for_each(|&(n, p)| {
        let mut sh = BTreeSet::new();
        let pre = &ladder_prefixes(n)[p];
        let mut seq = vec![];
        dfs::<F, A>(ctx, &job, &ops, pre, &mut seq, 1, mon, cnt, &mut sh);
        cnt.shapes.lock().unwrap().extend(sh);
    });
    let e3 = cnt.execs.load(Ordering::Relaxed);
    json!({
        "job": job, "alphabet": ops.len(), "depth": depth, "witness_prefixes": ws.len(), "witness_depth": wdepth,
        "big_ladder_lengths": big.len(),
        "sequences_from_empty": e1 - e0, "sequences_from_witnesses": e2 - e1,
        "ladder_lengths": lad.len(), "ladder_depth": ladder_depth, "sequences_from_ladder": e3 - e2,
        "secs": (t0.elapsed().as_secs_f64() * 100.0).round() / 100.0,
    })
}

pub fn run_all(ctx: &Ctx, mon: &dyn Monitor, depth: usize, wdepth: usize, small_depth: usize) -> (Vec<serde_json::Value>, Counters) {
    let cnt = Counters {
        execs: AtomicU64::new(0),
        ops: AtomicU64::new(0),
        shapes: Mutex::new(BTreeSet::new()),
    };
    let mut jobs = vec![];
    // the valgrind pass-through (replay_mode) runs ~50x slower: ladder with one further operation only
    let ld = if ctx.replay_mode { 1 } else { 2 };
    jobs.push(explore::<fmt::UTF8, NonAtomic>(ctx, "NonAtomic", depth, wdepth, ld, mon, &cnt));
    jobs.push(explore::<fmt::Bytes, NonAtomic>(ctx, "NonAtomic", depth, wdepth, ld, mon, &cnt));
    jobs.push(explore::<fmt::UTF8, Atomic>(ctx, "Atomic", small_depth, wdepth.min(small_depth), 1, mon, &cnt));
    jobs.push(explore::<fmt::Bytes, Atomic>(ctx, "Atomic", small_depth, wdepth.min(small_depth), 1, mon, &cnt));
    jobs.push(explore::<fmt::WTF8, NonAtomic>(ctx, "NonAtomic", small_depth, wdepth.min(small_depth), 1, mon, &cnt));
    jobs.push(explore::<fmt::ASCII, NonAtomic>(ctx, "NonAtomic", small_depth, wdepth.min(small_depth), 1, mon, &cnt));
    jobs.push(explore::<fmt::Latin1, NonAtomic>(ctx, "NonAtomic", small_depth, wdepth.min(small_depth), 1, mon, &cnt));
    (jobs, cnt)
}

/// Whole-domain sweeps: every lead surrogate x a few trail surrogates joined by both WTF-8 push paths
/// (inline and heap left operand), and every Unicode scalar value through the UTF-8 character paths.
pub fn domain_sweeps(ctx: &Ctx) -> u64 {
    use rayon::prelude::*;
    fn surr(cp: u32) -> [u8; 3] {
        [0xE0 | (cp >> 12) as u8, 0x80 | ((cp >> 6) & 0x3F) as u8, 0x80 | (cp & 0x3F) as u8]
    }
    let n = AtomicU64::new(0);
    (0xD800u32..=0xDBFF).into_par_iter().for_each(|lead| {
        for trail in [0xDC00u32, 0xDC01, 0xDD55, 0xDE00, 0xDFFE, 0xDFFF] {
            for prefix in ["", "a", "abcdefghij"] {
                for via_tendril in [false, true] {
                    let mut left = prefix.as_bytes().to_vec();
                    left.extend_from_slice(&surr(lead));
                    let mut right = surr(trail).to_vec();
                    right.extend_from_slice(b"z");
                    let mut model = left.clone();
                    <fmt::WTF8 as FmtX>::m_push(&mut model, &right);
                    n.fetch_add(1, Ordering::Relaxed);
                    let r = guarded(|| {
                        let mut t = Tendril::<fmt::WTF8, NonAtomic>::try_from_byte_slice(&left).map_err(|_| "left rejected")?;
                        if via_tendril {
                            let o = Tendril::<fmt::WTF8, NonAtomic>::try_from_byte_slice(&right).map_err(|_| "right rejected")?;
                            t.push_tendril(&o);
                        } else {
                            t.try_push_bytes(&right).map_err(|_| "push rejected")?;
                        }
                        Ok::<Vec<u8>, &'static str>(t.as_bytes().to_vec())
                    });
                    let w = format!("sweep WTF8 lead=U+{lead:04X} trail=U+{trail:04X} prefix={prefix:?} via_tendril={via_tendril}");
                    match r {
                        Ok(Ok(got)) if got == model => {},
                        Ok(Ok(got)) => {
                            ctx.violation("content", &w, json!({"message": format!("tendril {got:02X?} model {model:02X?}")}));
                        },
                        Ok(Err(e)) => {
                            ctx.violation("rejected-valid", &w, json!({"message": e}));
                        },
                        Err(p) => {
                            ctx.violation("panic", &w, json!({"message": p}));
                        },
                    }
                }
            }
        }
    });
    (0u32..=0x10FFFF).into_par_iter().for_each(|cp| {
        let Some(c) = char::from_u32(cp) else { return };
        n.fetch_add(1, Ordering::Relaxed);
        let r = guarded(|| {
            let mut out = vec![];
            let a = tendril::StrTendril::from_char(c);
            out.push(a.to_string());
            for prefix in ["", "abcdef", "abcdefg", "abcdefgh"] {
                let mut t = tendril::StrTendril::from_slice(prefix);
                t.push_char(c);
                t.push_char('!');
                out.push(t.to_string());
                let mut u = t.clone();
                out.push(format!("{:?}", u.pop_front_char()));
                out.push(u.to_string());
            }
            out
        });
        let mut want = vec![c.to_string()];
        for prefix in ["", "abcdef", "abcdefg", "abcdefgh"] {
            let s = format!("{prefix}{c}!");
            want.push(s.clone());
            want.push(format!("{:?}", s.chars().next()));
            want.push(s.chars().skip(1).collect());
        }
        let w = format!("sweep UTF8 char U+{cp:04X}");
        match r {
            Ok(got) if got == want => {},
            Ok(got) => {
                ctx.violation("content", &w, json!({"message": format!("tendril {got:?} model {want:?}")}));
            },
            Err(p) => {
                ctx.violation("panic", &w, json!({"message": p}));
            },
        }
    });
    n.load(Ordering::Relaxed)
}

pub fn main(ctx: &Ctx) -> ! {
    let sweeps = domain_sweeps(ctx);
    let (depth, wdepth, small) = ctx.tier.pick((4, 3, 4), (5, 4, 4));
    let (jobs, cnt) = run_all(ctx, &NoMonitor, depth, wdepth, small);
    let shapes = cnt.shapes.lock().unwrap().len();
    if shapes < 20 {
        machinery(&format!("vacuous exploration: only {shapes} representation shapes seen"));
    }
    let ops = alphabet::<fmt::UTF8>();
    ctx.assume("pool of 3 slots; literals of 1/8/9/12/17 bytes straddle the 8-byte inline limit; ops on slots 0/1, results into slot 2");
    ctx.assume("model validity/boundary rules written independently (std::str::from_utf8, generalized UTF-8 for WTF-8)");
    ctx.finish(
        "exploration",
        json!({
            "evaluations": cnt.execs.load(Ordering::Relaxed),
            "operations_executed": cnt.ops.load(Ordering::Relaxed),
            "distinct_nontrivial": shapes,
            "rule": "stateless exhaustive DFS over all operation sequences up to the stated depth (no state merging: capacity is invisible), re-executed from scratch; after the last op every live slot must equal its Vec<u8> model, be valid for its format, and every checked op must fail iff the model says so. distinct_nontrivial = distinct (representation class per slot, buffer-sharing matrix) tuples reached.",
            "exhaustive": true,
            "domain_sweep_evaluations": sweeps,
            "jobs": jobs,
            "samples": [render(&ops, &[0, 9, 20]), render(&ops, &[2, 14, 40, 41]), format!("{:?}", witnesses::<fmt::UTF8>()[4])],
        }),
    )
}

pub fn replay_with(ctx: &Ctx, witness: &str, mon: &dyn Monitor) {
    if witness.starts_with("sweep ") {
        domain_sweeps(ctx);
        return;
    }
    // witness = "<Fmt>/<Atomicity>: op; op; ..."
    let (job, rest) = witness.split_once(": ").unwrap_or(("", witness));
    macro_rules! go {
        ($f:ty, $a:ty) => {{
            let ops = alphabet::<$f>();
            // prefix ops may not be in the alphabet; parse against Debug of a superset
            let mut all: Vec<Op> = ops.clone();
            for w in witnesses::<$f>() {
                all.extend(w);
            }
            let seq: Vec<Op> = rest
                .split("; ")
                .filter(|s| !s.is_empty())
                .map(|s| {
                    if let Some(r) = s.strip_prefix("MakeN(") {
                        let mut it = r.trim_end_matches(')').split(", ");
                        return Op::MakeN(it.next().unwrap().parse().unwrap(), it.next().unwrap().parse().unwrap());
                    }
                    *all.iter().find(|o| format!("{o:?}") == s).unwrap_or_else(|| machinery(&format!("unknown op {s}")))
                })
                .collect();
            let cnt = Counters { execs: AtomicU64::new(0), ops: AtomicU64::new(0), shapes: Mutex::new(BTreeSet::new()) };
            let mut sh = BTreeSet::new();
            let ok = exec::<$f, $a>(ctx, job, &ops, &seq, &[], mon, &cnt, &mut sh);
            println!("replay: {} (enabled={ok})", if ctx.violations() == 0 { "passes" } else { "FAILS" });
        }};
    }
    match job {
        "UTF8/NonAtomic" => go!(fmt::UTF8, NonAtomic),
        "UTF8/Atomic" => go!(fmt::UTF8, Atomic),
        "Bytes/NonAtomic" => go!(fmt::Bytes, NonAtomic),
        "Bytes/Atomic" => go!(fmt::Bytes, Atomic),
        "WTF8/NonAtomic" => go!(fmt::WTF8, NonAtomic),
        "ASCII/NonAtomic" => go!(fmt::ASCII, NonAtomic),
        "Latin1/NonAtomic" => go!(fmt::Latin1, NonAtomic),
        j => machinery(&format!("unknown job {j}")),
    }
}
