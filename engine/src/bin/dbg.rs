use engine::c01::*;
use engine::common::*;
use engine::tokh::*;
use std::collections::{BTreeMap, BTreeSet};
use std::sync::atomic::AtomicU64;
use std::sync::Mutex;
fn main() {
    quiet_panics();
    let mut ctx = Ctx::new("C01", Tier::Thorough);
    ctx.replay_mode = true;
    let mode = Mode { tokens: true, lines: false };
    let stats = Stats { execs: AtomicU64::new(0), outcomes: Mutex::new(BTreeSet::new()) };
    let controls = Mutex::new(BTreeMap::new());
    let secs: f64 = std::env::args().nth(1).unwrap().parse().unwrap();
    let out = closure(&ctx, &mode, &TokCfg::default(), secs, &stats, &controls, None);
    println!("states={} transitions={} depth={} closed={} capped={:?} levels={:?} t={:.1}", out.states, out.transitions, out.max_depth, out.closed, out.capped_by, out.level_sizes, ctx.elapsed());
}
