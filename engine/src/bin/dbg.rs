use engine::c10::*;
use tendril::stream::{LossyDecoder, TendrilSink};
use tendril::ByteTendril;
fn main() {
    for chunks in [vec![&[0xD8u8,0x41,0,0][..]], vec![&[0xD8u8][..], &[0x41,0,0][..]], vec![&[0xD8u8,0x41][..], &[0,0][..]], vec![&[0xD8u8,0x41,0][..], &[0][..]]] {
        let mut d = LossyDecoder::new_encoding_rs(encoding_rs::UTF_16BE, Rec::default());
        for c in &chunks { d.process(ByteTendril::from_slice(c)); }
        let r = d.finish();
        println!("{:?} -> {:02X?} errors={}", chunks, r.out, r.errors);
    }
    let mut dec = encoding_rs::UTF_16BE.new_decoder();
    let mut out = [0u8; 64];
    let r = dec.decode_to_utf8_without_replacement(&[0xD8,0x41], &mut out, false); println!("{:?}", r);
    let r = dec.decode_to_utf8_without_replacement(&[0,0], &mut out, false); println!("{:?}", r);
    let n = dec.max_utf8_buffer_length_without_replacement(0); println!("maxlen {:?}", n);
    let r = dec.decode_to_utf8_without_replacement(&[], &mut out[..n.unwrap()], true); println!("{:?} {:02X?}", r, &out[..4]);
}
