use engine::common::*;

fn main() {
    let args: Vec<String> = std::env::args().collect();
    if args.len() < 3 {
        eprintln!("usage: vf <Cnn> quick|thorough | vf <Cnn> --replay <file>");
        std::process::exit(2);
    }
    let prop = args[1].as_str();
    quiet_panics();
    if args[2] == "--profile-slice" {
        engine::c03::profile_slice();
    }
    if args[2] == "--scale" {
        engine::c04::scale_child(&args[3], args[4].parse().unwrap());
    }
    if args[2] == "--replay" {
        let body = std::fs::read_to_string(&args[3]).unwrap_or_else(|e| machinery(&format!("{e}")));
        let v: serde_json::Value = serde_json::from_str(&body).unwrap_or_else(|e| machinery(&format!("{e}")));
        let mut ctx = Ctx::new(prop, Tier::Quick);
        ctx.replay_mode = true;
        let w = v["witness"].as_str().unwrap_or("").to_string();
        engine::replay(&ctx, &v, &w);
        std::process::exit(if ctx.violations() > 0 { 1 } else { 0 });
    }
    let tier = match args[2].as_str() {
        "quick" => Tier::Quick,
        "thorough" => Tier::Thorough,
        _ => machinery("tier must be quick|thorough"),
    };
    let ctx = Ctx::new(prop, tier);
    engine::run(&ctx);
}
