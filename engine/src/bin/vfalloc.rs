//! C12 (sequential part): the C11 operation histories re-run under a tracking
//! allocator: red zones, poisoning + quarantine of freed blocks (double free /
//! use-after-free become deterministic), leak check at the end of every
//! execution. The loom part lives in /verif/loomjob.
use engine::c11::{self, Monitor};
use engine::common::*;
use serde_json::json;
use std::alloc::{GlobalAlloc, Layout, System};
use std::cell::{Cell, RefCell};
use std::collections::HashMap;
use std::sync::atomic::{AtomicU64, Ordering};

const RZ: usize = 32;
const RZ_BYTE: u8 = 0xA5;
const POISON: u8 = 0xDD;

struct Block {
    size: usize,
    align: usize,
    freed: bool,
}

thread_local! {
    static TRACK: Cell<bool> = const { Cell::new(false) };
    static BUSY: Cell<bool> = const { Cell::new(false) };
    static ERR: RefCell<Option<String>> = const { RefCell::new(None) };
    // user pointer -> block
    static TABLE: RefCell<Option<HashMap<usize, Block>>> = const { RefCell::new(None) };
}
static TRACKED_ALLOCS: AtomicU64 = AtomicU64::new(0);
static TRACKED_FREES: AtomicU64 = AtomicU64::new(0);
static PASSTHROUGH: std::sync::atomic::AtomicBool = std::sync::atomic::AtomicBool::new(false);

struct Tracking;

fn pad(align: usize) -> usize {
    RZ.max(align)
}

fn set_err(msg: String) {
    let _ = ERR.try_with(|e| {
        let mut e = e.borrow_mut();
        if e.is_none() {
            *e = Some(msg);
        }
    });
}

unsafe fn check_zones(user: usize, b: &Block) -> bool {
    let p = pad(b.align);
    let base = (user - p) as *const u8;
    for i in 0..p {
        if *base.add(i) != RZ_BYTE {
            return false;
        }
    }
    let tail = (user + b.size) as *const u8;
    for i in 0..RZ {
        if *tail.add(i) != RZ_BYTE {
            return false;
        }
    }
    true
}

unsafe impl GlobalAlloc for Tracking {
    unsafe fn alloc(&self, l: Layout) -> *mut u8 {
        if PASSTHROUGH.load(Ordering::Relaxed) || BUSY.try_with(|b| b.get()).unwrap_or(true) || !TRACK.try_with(|t| t.get()).unwrap_or(false) {
            return System.alloc(l);
        }
        let _ = BUSY.try_with(|b| b.set(true));
        let p = pad(l.align());
        let total = l.size() + p + RZ;
        let base = System.alloc(Layout::from_size_align_unchecked(total, l.align()));
        if base.is_null() {
            let _ = BUSY.try_with(|b| b.set(false));
            return base;
        }
        std::ptr::write_bytes(base, RZ_BYTE, p);
        std::ptr::write_bytes(base.add(p), 0xCD, l.size());
        std::ptr::write_bytes(base.add(p + l.size()), RZ_BYTE, RZ);
        let user = base.add(p);
        let _ = TABLE.try_with(|t| {
            t.borrow_mut().get_or_insert_with(HashMap::new).insert(
                user as usize,
                Block {
                    size: l.size(),
                    align: l.align(),
                    freed: false,
                },
            );
        });
        TRACKED_ALLOCS.fetch_add(1, Ordering::Relaxed);
        let _ = BUSY.try_with(|b| b.set(false));
        user
    }

    unsafe fn dealloc(&self, ptr: *mut u8, l: Layout) {
        if PASSTHROUGH.load(Ordering::Relaxed) || BUSY.try_with(|b| b.get()).unwrap_or(true) {
            return System.dealloc(ptr, l);
        }
        let _ = BUSY.try_with(|b| b.set(true));
        let mut handled = false;
        let _ = TABLE.try_with(|t| {
            if let Some(tab) = t.borrow_mut().as_mut() {
                if let Some(b) = tab.get_mut(&(ptr as usize)) {
                    handled = true;
                    if b.freed {
                        set_err(format!("double free of block {:#x} (size {})", ptr as usize, b.size));
                    } else {
                        if b.size != l.size() || b.align != l.align() {
                            set_err(format!(
                                "free with wrong layout: allocated ({},{}) freed ({},{})",
                                b.size,
                                b.align,
                                l.size(),
                                l.align()
                            ));
                        }
                        if !check_zones(ptr as usize, b) {
                            set_err(format!("red zone of block size {} overwritten (seen at free)", b.size));
                        }
                        std::ptr::write_bytes(ptr, POISON, b.size);
                        b.freed = true;
                        TRACKED_FREES.fetch_add(1, Ordering::Relaxed);
                    }
                }
            }
        });
        let _ = BUSY.try_with(|b| b.set(false));
        if !handled {
            System.dealloc(ptr, l);
        }
    }

    unsafe fn realloc(&self, ptr: *mut u8, l: Layout, new_size: usize) -> *mut u8 {
        if PASSTHROUGH.load(Ordering::Relaxed) || BUSY.try_with(|b| b.get()).unwrap_or(true) {
            return System.realloc(ptr, l, new_size);
        }
        let tracked = TABLE
            .try_with(|t| {
                t.borrow()
                    .as_ref()
                    .map(|tab| tab.contains_key(&(ptr as usize)))
                    .unwrap_or(false)
            })
            .unwrap_or(false);
        if !tracked && !TRACK.try_with(|t| t.get()).unwrap_or(false) {
            return System.realloc(ptr, l, new_size);
        }
        let nl = Layout::from_size_align_unchecked(new_size, l.align());
        let np = self.alloc(nl);
        if !np.is_null() {
            std::ptr::copy_nonoverlapping(ptr, np, l.size().min(new_size));
            self.dealloc(ptr, l);
        }
        np
    }
}

#[global_allocator]
static GLOBAL: Tracking = Tracking;

struct AllocMonitor;
impl Monitor for AllocMonitor {
    fn begin(&self) {
        ERR.with(|e| *e.borrow_mut() = None);
    }
    fn enter(&self) {
        TRACK.with(|t| t.set(true));
    }
    fn leave(&self) {
        TRACK.with(|t| t.set(false));
    }
    fn after_op(&self) -> Option<String> {
        BUSY.with(|b| b.set(true));
        let mut err = ERR.with(|e| e.borrow_mut().take());
        TABLE.with(|t| {
            if let Some(tab) = t.borrow().as_ref() {
                for (&u, b) in tab.iter() {
                    unsafe {
                        if !check_zones(u, b) {
                            err.get_or_insert(format!("red zone of block size {} overwritten", b.size));
                        }
                        if b.freed {
                            let p = u as *const u8;
                            for i in 0..b.size {
                                if *p.add(i) != POISON {
                                    err.get_or_insert(format!("write after free into block size {}", b.size));
                                    break;
                                }
                            }
                        }
                    }
                }
            }
        });
        BUSY.with(|b| b.set(false));
        err
    }
    fn end(&self) -> Option<String> {
        let mut err = self.after_op();
        BUSY.with(|b| b.set(true));
        TABLE.with(|t| {
            if let Some(tab) = t.borrow_mut().as_mut() {
                let mut leaked = 0usize;
                let mut leaked_size = 0usize;
                for (&u, b) in tab.iter() {
                    if !b.freed {
                        // panic payloads etc. are freed by the harness outside
                        // tracking; anything still live here after the pool is
                        // dropped was allocated inside a tendril call
                        leaked += 1;
                        leaked_size = b.size;
                    }
                    unsafe {
                        let p = pad(b.align);
                        System.dealloc(
                            (u - p) as *mut u8,
                            Layout::from_size_align_unchecked(b.size + p + RZ, b.align),
                        );
                    }
                }
                tab.clear();
                if leaked > 0 {
                    err.get_or_insert(format!("{leaked} tendril block(s) never freed (e.g. size {leaked_size})"));
                }
            }
        });
        BUSY.with(|b| b.set(false));
        err
    }
}

fn main() {
    let args: Vec<String> = std::env::args().collect();
    if args.len() < 3 {
        machinery("usage: vfalloc C12 quick|thorough|--replay <file>|--passthrough <depth>");
    }
    quiet_panics();
    if args[2] == "--replay-witness" {
        let mut ctx = Ctx::new("C12", Tier::Quick);
        ctx.replay_mode = true;
        let w = args[3].clone();
        c11::replay_with(&ctx, &w, &AllocMonitor);
        std::process::exit(if ctx.violations() > 0 { 1 } else { 0 });
    }
    if args[2] == "--passthrough" {
        // for valgrind: same histories, system allocator, single thread
        PASSTHROUGH.store(true, Ordering::Relaxed);
        let depth: usize = args[3].parse().unwrap();
        rayon::ThreadPoolBuilder::new().num_threads(1).build_global().unwrap();
        let mut ctx = Ctx::new("C12", Tier::Thorough);
        ctx.replay_mode = true;
        let (_jobs, cnt) = c11::run_all(&ctx, &c11::NoMonitor, depth, depth.min(2), depth.min(2));
        println!("passthrough executions={} violations={}", cnt.execs.load(Ordering::Relaxed), ctx.violations());
        std::process::exit(if ctx.violations() > 0 { 1 } else { 0 });
    }
    let tier = match args[2].as_str() {
        "quick" => Tier::Quick,
        "thorough" => Tier::Thorough,
        _ => machinery("tier"),
    };
    let ctx = Ctx::new("C12", tier);
    let (depth, wdepth, small) = tier.pick((3, 3, 3), (4, 3, 3));
    let (jobs, cnt) = c11::run_all(&ctx, &AllocMonitor, depth, wdepth, small);
    let allocs = TRACKED_ALLOCS.load(Ordering::Relaxed);
    let frees = TRACKED_FREES.load(Ordering::Relaxed);
    if allocs < 1000 {
        machinery("vacuous: tracking allocator saw almost no tendril allocations");
    }
    // hand the sequential result to the wrapper script (which adds loom/valgrind parts)
    let part = json!({
        "evaluations": cnt.execs.load(Ordering::Relaxed),
        "operations_executed": cnt.ops.load(Ordering::Relaxed),
        "tracked_allocations": allocs,
        "tracked_frees": frees,
        "distinct_shapes": cnt.shapes.lock().unwrap().len(),
        "jobs": jobs,
        "violations": ctx.violations(),
        "wall_s": ctx.elapsed(),
    });
    let out = args.get(3).cloned().unwrap_or_else(|| "/verif/engine/target/c12_seq.json".into());
    std::fs::write(&out, serde_json::to_string_pretty(&part).unwrap()).unwrap();
    println!("C12 sequential part: {}", part);
    std::process::exit(if ctx.violations() > 0 { 1 } else { 0 });
}
