fn main(){}
