//! Harness around xml5ever: token-level recording sink and tree-level driver
//! into the monitored model sink.
use crate::dom::*;
use crate::tokh::Feed;
use markup5ever::buffer_queue::BufferQueue;
use markup5ever::TokenizerResult;
use std::cell::{Cell, RefCell};
use tendril::StrTendril;
use xml5ever::driver::{parse_document, XmlParseOpts};
use xml5ever::tokenizer::{ProcessResult, Token, TokenSink, XmlTokenizer, XmlTokenizerOpts};
use xml5ever::tree_builder::XmlTreeBuilderOpts;

#[derive(Clone, Debug, PartialEq, Eq, Hash)]
pub struct XmlCfg {
    pub exact_errors: bool,
    pub discard_bom: bool,
    pub profile: bool,
    pub with_rcdom: bool,
    /// token-level sink answers an end tag named `script` with Script (as the tree builder does)
    pub script_pause: bool,
    /// tree level: run the simulated collector at every suspension point (C18)
    pub gc: bool,
}
impl Default for XmlCfg {
    fn default() -> Self {
        XmlCfg { exact_errors: false, discard_bom: true, profile: false, with_rcdom: false, script_pause: false, gc: false }
    }
}
impl XmlCfg {
    pub fn describe(&self) -> String {
        format!("xml exact={} bom={}{}{}", self.exact_errors, self.discard_bom, if self.profile { " profile=true" } else { "" }, if self.gc { " gc=true" } else { "" })
    }
}

pub struct XRec {
    pub toks: RefCell<Vec<String>>,
    pub errors: RefCell<Vec<(String, usize)>>,
    pub eofs: Cell<u32>,
    pub script_pause: bool,
}
impl TokenSink for XRec {
    type Handle = ();
    fn process_token(&self, token: Token) -> ProcessResult<()> {
        let mut t = self.toks.borrow_mut();
        match token {
            Token::ParseError(e) => self.errors.borrow_mut().push((e.to_string(), t.len())),
            Token::Characters(c) => {
                if c.is_empty() {
                    return ProcessResult::Continue;
                }
                if let Some(last) = t.last_mut() {
                    if let Some(rest) = last.strip_prefix("T:") {
                        *last = format!("T:{rest}{c}");
                        return ProcessResult::Continue;
                    }
                }
                t.push(format!("T:{c}"));
            },
            Token::NullCharacter => t.push("NUL".into()),
            Token::EndOfFile => {
                self.eofs.set(self.eofs.get() + 1);
                t.push("EOF".into());
            },
            Token::Tag(tag) => {
                let pause = self.script_pause && tag.kind == xml5ever::tokenizer::TagKind::EndTag && &*tag.name.local == "script";
                t.push(format!(
                "{:?}:{}:{}|{}",
                tag.kind,
                tag.name.prefix.as_ref().map(|p| p.to_string()).unwrap_or_default(),
                tag.name.local,
                tag.attrs
                    .iter()
                    .map(|a| format!("{}:{}={:?}", a.name.prefix.as_ref().map(|p| p.to_string()).unwrap_or_default(), a.name.local, a.value.to_string()))
                    .collect::<Vec<_>>()
                    .join(",")
                ));
                if pause {
                    return ProcessResult::Script(());
                }
            },
            Token::Doctype(d) => t.push(format!("DT:{:?}:{:?}:{:?}", d.name.map(|s| s.to_string()), d.public_id.map(|s| s.to_string()), d.system_id.map(|s| s.to_string()))),
            Token::ProcessingInstruction(p) => t.push(format!("PI:{:?}:{:?}", p.target.to_string(), p.data.to_string())),
            Token::Comment(c) => t.push(format!("C:{:?}", c.to_string())),
        }
        ProcessResult::Continue
    }
}

#[derive(Default, Clone, Debug)]
pub struct XTokOut {
    pub toks: Vec<String>,
    pub errors: Vec<(String, usize)>,
    pub problems: Vec<String>,
    pub dump: Option<xml5ever::tokenizer::verif::VerifXmlTok>,
    pub queue_left: String,
}

pub fn run_xml_tokens(cfg: &XmlCfg, sched: &[Feed], end: bool, want_dump: bool) -> XTokOut {
    let _watch = crate::common::watch(|w| w.push_str(&crate::c15::witness(cfg, sched)));
    let sink = XRec { toks: RefCell::new(vec![]), errors: RefCell::new(vec![]), eofs: Cell::new(0), script_pause: cfg.script_pause };
    let tok = XmlTokenizer::new(
        sink,
        XmlTokenizerOpts { exact_errors: cfg.exact_errors, discard_bom: cfg.discard_bom, profile: cfg.profile, initial_state: None },
    );
    let q = BufferQueue::default();
    let mut out = XTokOut::default();
    for f in sched {
        match f {
            Feed::Chunk(s) => q.push_back(StrTendril::from_slice(s)),
            Feed::Empty => q.push_back(StrTendril::new()),
        }
        let mut guard = 0;
        loop {
            guard += 1;
            if guard > 100_000 {
                out.problems.push("feed loop does not terminate".into());
                break;
            }
            match tok.feed(&q) {
                TokenizerResult::Done => {
                    if !q.is_empty() {
                        out.problems.push("xml feed returned Done with a non-empty queue".into());
                    }
                    break;
                },
                _ => {
                    if q.is_empty() {
                        break;
                    }
                },
            }
        }
    }
    if want_dump {
        out.dump = Some(tok.verif_dump());
        let c = q.clone();
        while let Some(t) = c.pop_front() {
            out.queue_left.push_str(&t);
        }
    }
    if end {
        tok.end();
        if tok.sink.eofs.get() != 1 {
            out.problems.push(format!("{} EOF tokens delivered by the xml tokenizer", tok.sink.eofs.get()));
        }
        if tok.sink.toks.borrow().last().map(|s| s.as_str()) != Some("EOF") {
            out.problems.push("EOF is not the last xml token".into());
        }
    }
    out.toks = tok.sink.toks.borrow().clone();
    out.errors = tok.sink.errors.borrow().clone();
    out
}

pub struct XTreeOut {
    pub collected: usize,
    pub problems: Vec<String>,
    pub sink: MSink,
    pub tb_key: String,
}

pub fn run_xml_tree(cfg: &XmlCfg, sched: &[Feed], end: bool) -> XTreeOut {
    let _watch = crate::common::watch(|w| w.push_str(&crate::c15::witness(cfg, sched)));
    let mut sink = MSink::new(cfg.with_rcdom, false);
    sink.xml = true;
    let p = parse_document(
        sink,
        XmlParseOpts {
            tokenizer: XmlTokenizerOpts { exact_errors: cfg.exact_errors, discard_bom: cfg.discard_bom, profile: cfg.profile, initial_state: None },
            tree_builder: XmlTreeBuilderOpts::default(),
        },
    );
    let mut problems = vec![];
    let mut collected = 0usize;
    for f in sched {
        match f {
            Feed::Chunk(s) => p.input_buffer.push_back(StrTendril::from_slice(s)),
            Feed::Empty => p.input_buffer.push_back(StrTendril::new()),
        }
        let mut guard = 0;
        loop {
            guard += 1;
            if guard > 100_000 {
                problems.push("xml feed loop does not terminate".into());
                break;
            }
            let r = p.tokenizer.feed(&p.input_buffer);
            if cfg.gc {
                // a suspension point: everything not connected to a traced handle goes
                let t = crate::treeh::CollectTracer { seen: RefCell::new(vec![]) };
                p.tokenizer.sink.trace_handles(&t);
                let roots = t.seen.into_inner();
                collected += p.tokenizer.sink.sink.collect_except(&roots);
            }
            match r {
                TokenizerResult::Done => {
                    if !p.input_buffer.is_empty() {
                        problems.push("xml feed returned Done with a non-empty queue".into());
                    }
                    break;
                },
                _ => {
                    if p.input_buffer.is_empty() {
                        break;
                    }
                },
            }
        }
    }
    let d = p.tokenizer.sink.verif_dump();
    let tb_key = format!("{}|{:?}|{:?}|{}|{}|{}", d.phase, d.open_elems, d.curr_elem, d.namespace_stack, d.current_namespace, d.doctype_appended);
    if end {
        p.tokenizer.end();
    }
    XTreeOut { problems, sink: p.tokenizer.sink.sink, tb_key, collected }
}

/// scale run used by the C04 child process
pub fn scale_xml(input: &str) {
    use xml5ever::tendril::TendrilSink;
    let rc = xml5ever::driver::parse_document(markup5ever_rcdom::RcDom::default(), Default::default()).one(StrTendril::from_slice(input));
    let mut buf = Vec::new();
    let h: markup5ever_rcdom::SerializableHandle = rc.document.clone().into();
    xml5ever::serialize::serialize(&mut buf, &h, Default::default()).unwrap();
}
