//! C18 deviations: at one suspension point a "script" detaches one attached
//! element; the simulated collector then runs at every suspension point.
use crate::common::*;
use crate::e2::*;
use crate::tokh::Feed;
use crate::treeh::*;
use rayon::prelude::*;
use serde_json::json;
use std::sync::atomic::{AtomicU64, Ordering};

pub fn detach_sweep(ctx: &Ctx, stats: &Stats, tier: Tier) -> u64 {
    let sigma = sigma_full();
    // inputs: every mode witness followed by every lexeme string of length <= k, k = 1 (quick) / 2 (thorough)
    let mut inputs: Vec<Vec<&'static str>> = vec![];
    let mut prefixes = mode_witnesses();
    prefixes.push(vec![]);
    prefixes.push(vec!["<p>", "<b>", "</p>"]);
    prefixes.push(vec!["<form>", "<div>", "</form>"]);
    prefixes.push(vec!["<head>", "</head>"]);
    prefixes.push(vec!["<a>", "<b>", "<p>", "</a>"]);
    let k = tier.pick(1, 2);
    for p in &prefixes {
        for a in &sigma {
            let mut v = p.clone();
            v.push(a);
            if k >= 2 && p.len() <= 1 {
                for b in &sigma {
                    let mut w = v.clone();
                    w.push(b);
                    inputs.push(w);
                }
            }
            inputs.push(v);
        }
    }
    let runs = AtomicU64::new(0);
    let cfgs = [TreeCfg::default(), TreeCfg { fragment: Some(fragment_contexts()[0].clone()), ..Default::default() }];
    inputs.par_iter().for_each(|inp| {
        for cfg in &cfgs {
            if cfg.fragment.is_some() && inp.len() > 3 {
                continue;
            }
            let sched: Vec<Feed> = inp.iter().map(|s| Feed::Chunk(s.to_string())).collect();
            let base_env = Env { gc: true, ..Default::default() };
            let Ok(base) = guarded(|| run_tree(cfg, &sched, &base_env, true)) else { continue };
            for (si, &n) in base.attached_at.iter().enumerate() {
                for kk in 0..n {
                    let env = Env { gc: true, detach: vec![(si, kk)], ..Default::default() };
                    let r = guarded(|| run_tree(cfg, &sched, &env, true));
                    runs.fetch_add(1, Ordering::Relaxed);
                    stats.execs.fetch_add(1, Ordering::Relaxed);
                    if let Some((kind, msg)) = judge(Prop::C18, cfg, &r) {
                        ctx.violation(&kind, &witness(cfg, &sched, &env), json!({"message": msg, "job": "detach"}));
                    }
                    if let Ok(o) = &r {
                        stats.collected.fetch_add(o.collected as u64, Ordering::Relaxed);
                    }
                }
            }
        }
    });
    runs.load(Ordering::Relaxed)
}

/// xml5ever's tree builder has a trace_handles too: every string of <= k xml lexemes, one chunk per lexeme
/// (every chunk boundary and every `</script>` pause is a suspension point), with the simulated collector:
/// no later sink call may name a collected node and the tree must equal the run without the collector
pub fn xml_sweep(ctx: &Ctx, stats: &Stats, tier: Tier) -> u64 {
    use crate::xmlh::*;
    let mut lex: Vec<&str> = crate::c15::xml_lexemes();
    for extra in ["<a>", "</a>", "<a/>", "</>", "<p:a xmlns:p='u'>", "<script/>", "<script>", "</script>", "<?pi d?>", "<!--c-->", "<!DOCTYPE a>", "<![CDATA[x]]>", "x"] {
        if !lex.contains(&extra) {
            lex.push(extra);
        }
    }
    let k = tier.pick(3, 4);
    let n = lex.len();
    let runs = AtomicU64::new(0);
    (0..n).into_par_iter().for_each(|f| {
        let mut stack: Vec<Vec<usize>> = vec![vec![f]];
        while let Some(cur) = stack.pop() {
            let sched: Vec<Feed> = cur.iter().map(|&i| Feed::Chunk(lex[i].to_string())).collect();
            let gcfg = XmlCfg { gc: true, ..Default::default() };
            runs.fetch_add(1, Ordering::Relaxed);
            stats.execs.fetch_add(1, Ordering::Relaxed);
            let w = || crate::c15::witness(&gcfg, &sched);
            match (guarded(|| run_xml_tree(&gcfg, &sched, true)), guarded(|| run_xml_tree(&XmlCfg::default(), &sched, true))) {
                (Ok(g), Ok(b)) => {
                    stats.collected.fetch_add(g.collected as u64, Ordering::Relaxed);
                    if let Some(c) = g.sink.contract.borrow().iter().find(|c| c.contains("collected")) {
                        ctx.violation("untraced-node-used", &w(), json!({"message": c, "job": "xml"}));
                    } else if crate::c15::tree_sig(&g) != crate::c15::tree_sig(&b) {
                        ctx.violation("gc-changes-tree", &w(), json!({"with_collector": crate::c15::tree_sig(&g), "without": crate::c15::tree_sig(&b), "job": "xml"}));
                    }
                },
                (Err(p), Ok(_)) => {
                    ctx.violation("panic", &w(), json!({"panic": p, "job": "xml"}));
                },
                _ => {},
            }
            if cur.len() < k {
                for i in 0..n {
                    let mut nx = cur.clone();
                    nx.push(i);
                    stack.push(nx);
                }
            }
        }
    });
    runs.load(Ordering::Relaxed)
}
