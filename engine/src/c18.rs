//! C18 deviations: at one suspension point a "script" detaches one attached
//! element; the simulated collector then runs at every suspension point.
use crate::common::*;
use crate::e2::*;
use crate::tokh::Feed;
use crate::treeh::*;
use rayon::prelude::*;
use serde_json::json;
use std::sync::atomic::{AtomicU64, Ordering};

pub fn detach_sweep(ctx: &Ctx, stats: &Stats, tier: Tier) -> u64 {
    let sigma = sigma_full();
    // inputs: every mode witness followed by every lexeme string of length <= k, k = 1 (quick) / 2 (thorough)
    let mut inputs: Vec<Vec<&'static str>> = vec![];
    let mut prefixes = mode_witnesses();
    prefixes.push(vec![]);
    prefixes.push(vec!["<p>", "<b>", "</p>"]);
    prefixes.push(vec!["<form>", "<div>", "</form>"]);
    prefixes.push(vec!["<head>", "</head>"]);
    prefixes.push(vec!["<a>", "<b>", "<p>", "</a>"]);
    let k = tier.pick(1, 2);
    for p in &prefixes {
        for a in &sigma {
            let mut v = p.clone();
            v.push(a);
            if k >= 2 && p.len() <= 1 {
                for b in &sigma {
                    let mut w = v.clone();
                    w.push(b);
                    inputs.push(w);
                }
            }
            inputs.push(v);
        }
    }
    let runs = AtomicU64::new(0);
    let cfgs = [TreeCfg::default(), TreeCfg { fragment: Some(fragment_contexts()[0].clone()), ..Default::default() }];
    inputs.par_iter().for_each(|inp| {
        for cfg in &cfgs {
            if cfg.fragment.is_some() && inp.len() > 3 {
                continue;
            }
            let sched: Vec<Feed> = inp.iter().map(|s| Feed::Chunk(s.to_string())).collect();
            let base_env = Env { gc: true, ..Default::default() };
            let Ok(base) = guarded(|| run_tree(cfg, &sched, &base_env, true)) else { continue };
            for (si, &n) in base.attached_at.iter().enumerate() {
                for kk in 0..n {
                    let env = Env { gc: true, detach: vec![(si, kk)], ..Default::default() };
                    let r = guarded(|| run_tree(cfg, &sched, &env, true));
                    runs.fetch_add(1, Ordering::Relaxed);
                    stats.execs.fetch_add(1, Ordering::Relaxed);
                    if let Some((kind, msg)) = judge(Prop::C18, cfg, &r) {
                        ctx.violation(&kind, &witness(cfg, &sched, &env), json!({"message": msg, "job": "detach"}));
                    }
                    if let Ok(o) = &r {
                        stats.collected.fetch_add(o.collected as u64, Ordering::Relaxed);
                    }
                }
            }
        }
    });
    runs.load(Ordering::Relaxed)
}
