//! C02: final DOM and quirks mode of the real parser vs R-tok + R-tree.
use crate::common::*;
use crate::dom::*;
use crate::e2::*;
use crate::rtree;
use crate::treeh::*;

pub fn rcfg(cfg: &TreeCfg) -> rtree::RCfg {
    rtree::RCfg {
        scripting: cfg.scripting,
        srcdoc: cfg.iframe_srcdoc,
        quirks: cfg.quirks,
        fragment: cfg.fragment.as_ref().map(|f| {
            (
                f.ns.to_string(),
                f.local.to_string(),
                f.attrs.iter().map(|(k, v)| (k.to_string(), v.to_string())).collect(),
                f.with_form,
                f.allows_scripting,
            )
        }),
        discard_bom: cfg.discard_bom,
    }
}

/// render only what hangs under the document (detached context / form elements are not part of the result)
pub fn compare(cfg: &TreeCfg, input: &str, o: &TreeOut) -> Option<(String, String)> {
    compare_keyed(cfg, input, o).0
}

/// verdict plus the digest of the reference's state before end-of-file (second half of the product key)
pub fn compare_keyed(cfg: &TreeCfg, input: &str, o: &TreeOut) -> (Option<(String, String)>, u128) {
    let (r, key, ref_summary) = match guarded(|| rtree::parse_keyed(&rcfg(cfg), input)) {
        Ok(r) => r,
        Err(p) => machinery(&format!("R-tree panicked on {input:?} ({}): {p}", cfg.describe())),
    };
    let sink = o.sink.as_ref().unwrap();
    let got = sink.dom.borrow().render_doc();
    let want = r.dom.render_doc();
    if got != want {
        return (Some(("tree".into(), format!("html5ever:\n{got}\nWHATWG (R-tree):\n{want}"))), key);
    }
    let q = match sink.quirks.get() {
        html5ever::tree_builder::QuirksMode::NoQuirks => 0,
        html5ever::tree_builder::QuirksMode::LimitedQuirks => 1,
        html5ever::tree_builder::QuirksMode::Quirks => 2,
    };
    // the sink only hears about changes; the initial mode is the configured one
    let got_q = if sink_quirks_was_set(sink) { q } else { cfg.quirks };
    if got_q != r.quirks {
        return (Some(("quirks-mode".into(), format!("html5ever reports {got_q}, spec says {}", r.quirks))), key);
    }
    // control state before end-of-file: insertion mode, template modes, names on the stack of open
    // elements and in the list of active formatting elements, frameset-ok, head / form pointers,
    // pending table text. A divergence here shows one or two tokens before it shows in the tree.
    if !ref_summary.is_empty() && !o.ctl_summary.is_empty() && ref_summary != o.ctl_summary {
        return (Some(("control-state".into(), format!("html5ever: {}\nWHATWG (R-tree): {ref_summary}", o.ctl_summary))), key);
    }
    (None, key)
}

fn sink_quirks_was_set(s: &MSink) -> bool {
    s.quirks_set.get()
}

pub fn main(ctx: &Ctx) -> ! {
    crate::e2::main(ctx, Prop::C02)
}
