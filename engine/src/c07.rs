//! C07: HTML serializer. (a) serialize -> parse_fragment round trip over all
//! small trees of ordinary elements with all short strings; (b) inner == outer
//! for every element of parsed trees, and outer == R-ser (the spec's
//! "serializing HTML fragments").
use crate::common::*;
use html5ever::serialize::{serialize, SerializeOpts, TraversalScope};
use html5ever::tendril::{StrTendril, TendrilSink};
use html5ever::tree_builder::{ElementFlags, NodeOrText, TreeSink};
use html5ever::{local_name, ns, Attribute, LocalName, Namespace, QualName};
use markup5ever_rcdom::{Handle, NodeData, RcDom, SerializableHandle};
use rayon::prelude::*;
use serde_json::json;
use std::collections::BTreeSet;
use std::sync::atomic::{AtomicU64, Ordering};
use std::sync::Mutex;

const SIGMA: [&str; 22] = [
    "a", "&", "<", ">", "\"", "'", "\u{a0}", "\u{a2}", "\u{80}", "\u{e9}", "\u{fffd}", "\u{1F600}", " ", "\n", ";", "#", "=", "-", "!", "/", "amp", "\u{c2a0}",
];

fn strings(maxlen: usize) -> Vec<String> {
    let mut all = vec![];
    let mut level = vec![String::new()];
    for _ in 0..maxlen {
        let mut next = vec![];
        for s in &level {
            for a in SIGMA {
                next.push(format!("{s}{a}"));
            }
        }
        all.extend(next.iter().cloned());
        level = next;
    }
    all
}

fn html_name(l: &str) -> QualName {
    QualName::new(None, ns!(html), LocalName::from(l))
}
fn attr(n: &str, v: &str) -> Attribute {
    Attribute { name: QualName::new(None, ns!(), LocalName::from(n)), value: StrTendril::from_slice(v) }
}

/// canonical rendering of an RcDom subtree
pub fn rc_render(h: &Handle, out: &mut String, depth: usize) {
    let ind = "  ".repeat(depth);
    match &h.data {
        NodeData::Document => out.push_str("#document\n"),
        NodeData::Doctype { name, .. } => out.push_str(&format!("{ind}<!DOCTYPE {name}>\n")),
        NodeData::Text { contents } => out.push_str(&format!("{ind}{:?}\n", contents.borrow().to_string())),
        NodeData::Comment { contents } => out.push_str(&format!("{ind}<!--{:?}-->\n", contents.to_string())),
        NodeData::ProcessingInstruction { target, contents } => out.push_str(&format!("{ind}<?{target} {contents}>\n")),
        NodeData::Element { name, attrs, template_contents, .. } => {
            out.push_str(&format!("{ind}<{}|{}>\n", name.ns, name.local));
            for a in attrs.borrow().iter() {
                out.push_str(&format!("{ind}  @{}|{}={:?}\n", a.name.ns, a.name.local, a.value.to_string()));
            }
            if let Some(t) = template_contents.borrow().as_ref() {
                out.push_str(&format!("{ind}  #content\n"));
                for c in t.children.borrow().iter() {
                    rc_render(c, out, depth + 2);
                }
            }
        },
    }
    for c in h.children.borrow().iter() {
        rc_render(c, out, depth + 1);
    }
}

fn ser(h: &Handle, scope: TraversalScope, scripting: bool) -> Result<Vec<u8>, String> {
    guarded(|| {
        let mut buf = Vec::new();
        let sh: SerializableHandle = h.clone().into();
        serialize(&mut buf, &sh, SerializeOpts { scripting_enabled: scripting, traversal_scope: scope, create_missing_parent: false }).unwrap();
        buf
    })
}

/// shapes: a function building children under `root` from strings (s, t)
type Shape = fn(&RcDom, &Handle, &str, &str);
fn el(dom: &RcDom, name: &str, attrs: Vec<Attribute>) -> Handle {
    dom.create_element(html_name(name), attrs, ElementFlags::default())
}
fn text(dom: &RcDom, p: &Handle, s: &str) {
    dom.append(p, NodeOrText::AppendText(StrTendril::from_slice(s)));
}
fn shapes() -> Vec<(&'static str, bool, Shape)> {
    vec![
        ("text", false, |d, r, s, _| text(d, r, s)),
        ("div>text", false, |d, r, s, _| {
            let e = el(d, "div", vec![]);
            text(d, &e, s);
            d.append(r, NodeOrText::AppendNode(e));
        }),
        ("span[id]", false, |d, r, s, _| {
            let e = el(d, "span", vec![attr("id", s)]);
            d.append(r, NodeOrText::AppendNode(e));
        }),
        ("x-y[id,data-x]>text", true, |d, r, s, t| {
            let e = el(d, "x-y", vec![attr("id", s), attr("data-x", t)]);
            text(d, &e, t);
            d.append(r, NodeOrText::AppendNode(e));
        }),
        ("text,span,text", true, |d, r, s, t| {
            text(d, r, s);
            let e = el(d, "span", vec![]);
            d.append(r, NodeOrText::AppendNode(e));
            text(d, r, t);
        }),
        ("section>(text,div[id]>text)", true, |d, r, s, t| {
            let e = el(d, "section", vec![]);
            text(d, &e, s);
            let f = el(d, "div", vec![attr("id", t)]);
            text(d, &f, s);
            d.append(&e, NodeOrText::AppendNode(f));
            d.append(r, NodeOrText::AppendNode(e));
        }),
        ("div>div>div[data-x]>text", true, |d, r, s, t| {
            let a = el(d, "div", vec![]);
            let b = el(d, "div", vec![]);
            let c = el(d, "div", vec![attr("data-x", s)]);
            text(d, &c, t);
            d.append(&b, NodeOrText::AppendNode(c));
            d.append(&a, NodeOrText::AppendNode(b));
            d.append(r, NodeOrText::AppendNode(a));
        }),
        ("span,span[id]>text,comment", true, |d, r, s, t| {
            let a = el(d, "span", vec![]);
            d.append(r, NodeOrText::AppendNode(a));
            let b = el(d, "span", vec![attr("id", s)]);
            text(d, &b, t);
            d.append(r, NodeOrText::AppendNode(b));
            let c = d.create_comment(StrTendril::from_slice("c"));
            d.append(r, NodeOrText::AppendNode(c));
        }),
    ]
}

struct Acc {
    evals: AtomicU64,
    outcomes: Mutex<BTreeSet<u128>>,
}

fn roundtrip(ctx: &Ctx, acc: &Acc, shape: &(&'static str, bool, Shape), s: &str, t: &str, local: &mut BTreeSet<u128>) {
    acc.evals.fetch_add(1, Ordering::Relaxed);
    let dom = RcDom::default();
    let root = el(&dom, "div", vec![]);
    (shape.2)(&dom, &root, s, t);
    let mut want = String::new();
    for c in root.children.borrow().iter() {
        rc_render(c, &mut want, 0);
    }
    let wit = format!("roundtrip shape={} s={s:?} t={t:?}", shape.0);
    let bytes = match ser(&root, TraversalScope::ChildrenOnly(None), true) {
        Ok(b) => b,
        Err(p) => {
            ctx.violation("panic", &wit, json!({"panic": p}));
            return;
        },
    };
    let Ok(html) = String::from_utf8(bytes.clone()) else {
        ctx.violation("invalid-utf8", &wit, json!({"bytes": format!("{bytes:02X?}"), "tree": want}));
        return;
    };
    local.insert(digest(&html));
    let parsed = html5ever::parse_fragment(RcDom::default(), Default::default(), html_name("div"), vec![], true).one(StrTendril::from_slice(&html));
    // fragment result: document > html > children
    let mut got = String::new();
    let doc_children = parsed.document.children.borrow();
    if let Some(htmlel) = doc_children.first() {
        for c in htmlel.children.borrow().iter() {
            rc_render(c, &mut got, 0);
        }
    }
    if got != want {
        ctx.violation("roundtrip", &wit, json!({"serialized": html, "tree": want, "reparsed": got}));
    }
}

// ---------------------------------------------------------------- R-ser

const VOID: [&str; 18] = ["area", "base", "basefont", "bgsound", "br", "col", "embed", "frame", "hr", "img", "input", "keygen", "link", "meta", "param", "source", "track", "wbr"];
const RAWTEXT_PARENTS: [&str; 7] = ["style", "script", "xmp", "iframe", "noembed", "noframes", "plaintext"];

fn esc(s: &str, attr_mode: bool, out: &mut String) {
    for c in s.chars() {
        match c {
            '&' => out.push_str("&amp;"),
            '\u{a0}' => out.push_str("&nbsp;"),
            '<' => out.push_str("&lt;"),
            '>' => out.push_str("&gt;"),
            '"' if attr_mode => out.push_str("&quot;"),
            c => out.push(c),
        }
    }
}

fn rser_children(h: &Handle, parent_html: Option<&str>, scripting: bool, out: &mut String) {
    for c in h.children.borrow().iter() {
        rser_node(c, parent_html, scripting, out);
    }
}
fn rser_node(h: &Handle, parent_html: Option<&str>, scripting: bool, out: &mut String) {
    match &h.data {
        NodeData::Element { name, attrs, .. } => {
            out.push('<');
            out.push_str(&name.local);
            for a in attrs.borrow().iter() {
                out.push(' ');
                let n = &a.name;
                if n.ns == ns!() {
                } else if n.ns == ns!(xml) {
                    out.push_str("xml:");
                } else if n.ns == ns!(xmlns) {
                    if n.local != local_name!("xmlns") {
                        out.push_str("xmlns:");
                    }
                } else if n.ns == ns!(xlink) {
                    out.push_str("xlink:");
                } else {
                    out.push_str("unknown_namespace:");
                }
                out.push_str(&n.local);
                out.push_str("=\"");
                esc(&a.value, true, out);
                out.push('"');
            }
            out.push('>');
            let is_html = name.ns == ns!(html);
            if is_html && VOID.contains(&&*name.local) {
                return;
            }
            rser_children(h, if is_html { Some(&name.local) } else { None }, scripting, out);
            out.push_str("</");
            out.push_str(&name.local);
            out.push('>');
        },
        NodeData::Text { contents } => {
            let raw = match parent_html {
                Some(p) if RAWTEXT_PARENTS.contains(&p) => true,
                Some("noscript") => scripting,
                _ => false,
            };
            if raw {
                out.push_str(&contents.borrow());
            } else {
                esc(&contents.borrow(), false, out);
            }
        },
        NodeData::Comment { contents } => {
            out.push_str("<!--");
            out.push_str(contents);
            out.push_str("-->");
        },
        NodeData::Doctype { name, .. } => {
            out.push_str("<!DOCTYPE ");
            out.push_str(name);
            out.push('>');
        },
        NodeData::ProcessingInstruction { target, contents } => {
            out.push_str(&format!("<?{target} {contents}>"));
        },
        NodeData::Document => {},
    }
}

fn all_elements(h: &Handle, out: &mut Vec<Handle>) {
    if let NodeData::Element { .. } = h.data {
        out.push(h.clone());
    }
    for c in h.children.borrow().iter() {
        all_elements(c, out);
    }
}

fn inner_outer(ctx: &Ctx, acc: &Acc, input: &str, scripting: bool, local: &mut BTreeSet<u128>) {
    let opts = html5ever::ParseOpts { tree_builder: html5ever::tree_builder::TreeBuilderOpts { scripting_enabled: scripting, ..Default::default() }, ..Default::default() };
    let Ok(dom) = guarded(|| html5ever::parse_document(RcDom::default(), opts).one(StrTendril::from_slice(input))) else { return };
    let mut els = vec![];
    all_elements(&dom.document, &mut els);
    // whole document vs R-ser
    let mut want = String::new();
    rser_children(&dom.document, None, scripting, &mut want);
    local.insert(digest(&want));
    if let Ok(b) = ser(&dom.document, TraversalScope::ChildrenOnly(None), scripting) {
        acc.evals.fetch_add(1, Ordering::Relaxed);
        if b != want.as_bytes() {
            ctx.violation("differs-from-spec-serialization", &format!("document input={input:?} scripting={scripting}"), json!({"html5ever": String::from_utf8_lossy(&b), "spec": want}));
        }
    }
    for e in els {
        acc.evals.fetch_add(1, Ordering::Relaxed);
        let NodeData::Element { name, .. } = &e.data else { continue };
        let wit = format!("inner-outer input={input:?} element={}|{} scripting={scripting}", name.ns, name.local);
        let (Ok(outer), Ok(inner)) = (ser(&e, TraversalScope::IncludeNode, scripting), ser(&e, TraversalScope::ChildrenOnly(Some(name.clone())), scripting)) else {
            ctx.violation("panic", &wit, json!({}));
            continue;
        };
        let outer = String::from_utf8_lossy(&outer).to_string();
        let inner = String::from_utf8_lossy(&inner).to_string();
        let Some(gt) = outer.find('>') else {
            ctx.violation("inner-outer", &wit, json!({"outer": outer}));
            continue;
        };
        let is_void = name.ns == ns!(html) && VOID.contains(&&*name.local);
        let end = format!("</{}>", name.local);
        let between = if is_void {
            if outer.len() != gt + 1 {
                ctx.violation("inner-outer", &wit, json!({"outer": outer, "note": "void element serialized with content or end tag"}));
            }
            continue;
        } else if outer.ends_with(&end) {
            &outer[gt + 1..outer.len() - end.len()]
        } else {
            ctx.violation("inner-outer", &wit, json!({"outer": outer, "note": "no end tag"}));
            continue;
        };
        if between != inner {
            ctx.violation("inner-outer", &wit, json!({"outer": outer, "between_tags": between, "children_only": inner}));
        }
    }
}

pub fn main(ctx: &Ctx) -> ! {
    let acc = Acc { evals: AtomicU64::new(0), outcomes: Mutex::new(BTreeSet::new()) };
    let l1 = ctx.tier.pick(3, 4);
    let l2 = ctx.tier.pick(2, 2);
    let single = strings(l1);
    let short = strings(l2);
    let shp = shapes();
    // (a) round trip
    single.par_iter().for_each(|s| {
        let mut local = BTreeSet::new();
        for sh in shp.iter().filter(|x| !x.1) {
            roundtrip(ctx, &acc, sh, s, "", &mut local);
        }
        // two-string shapes with (s, s)
        for sh in shp.iter().filter(|x| x.1) {
            roundtrip(ctx, &acc, sh, s, s, &mut local);
        }
        acc.outcomes.lock().unwrap().extend(local);
    });
    short.par_iter().for_each(|s| {
        let mut local = BTreeSet::new();
        for t in &short {
            for sh in shp.iter().filter(|x| x.1) {
                roundtrip(ctx, &acc, sh, s, t, &mut local);
            }
        }
        acc.outcomes.lock().unwrap().extend(local);
    });
    // memchr window sweep: 0..=70 'a' with one or two specials at every position
    let specials = ["&", "<", ">", "\"", "\u{a0}", "\u{a2}", "\u{c2a0}"];
    let lens: Vec<usize> = (0..=ctx.tier.pick(40, 70)).collect();
    lens.par_iter().for_each(|&len| {
        let mut local = BTreeSet::new();
        for (ai, a) in specials.iter().enumerate() {
            for i in 0..=len {
                let mut s = "a".repeat(len);
                s.insert_str(i, a);
                roundtrip(ctx, &acc, &shp[1], &s, "", &mut local);
                roundtrip(ctx, &acc, &shp[2], &s, "", &mut local);
                if ai < 5 && len <= 34 {
                    for b in &specials[..6] {
                        for j in [i, i + 1, len / 2, len] {
                            let j = j.min(s.len());
                            if !s.is_char_boundary(j) {
                                continue;
                            }
                            let mut s2 = s.clone();
                            s2.insert_str(j, b);
                            roundtrip(ctx, &acc, &shp[1], &s2, "", &mut local);
                            roundtrip(ctx, &acc, &shp[2], &s2, "", &mut local);
                        }
                    }
                }
            }
        }
        acc.outcomes.lock().unwrap().extend(local);
    });
    // long runs: a special after (and between) filler runs whose length sits on or next to every power of
    // two up to 64 Ki and on every length up to 130 (look-ahead windows, buffer sizes, stride multiples)
    let mut run_lens: Vec<usize> = (0..=130).collect();
    for k in 7..=16u32 {
        let p = 1usize << k;
        run_lens.extend([p - 2, p - 1, p, p + 1, p + 2, p + p / 2]);
    }
    let long_cap = ctx.tier.pick(4200, 70_000);
    run_lens.retain(|l| *l <= long_cap);
    run_lens.sort();
    run_lens.dedup();
    let n_runs = run_lens.len();
    run_lens.par_iter().for_each(|&len| {
        let mut local = BTreeSet::new();
        for filler in ["a", "\u{e9}", "\u{a2}"] {
            if filler != "a" && len > 5000 {
                continue;
            }
            let run = filler.repeat(len);
            for a in ["<", ">", "\"", "&", "\u{a0}", "<b>x</b>", "\" id=\"y"] {
                for s in [format!("{run}{a}"), format!("{run}{a}b"), format!("&{run}{a}"), format!("{a}{run}{a}b"), format!("\u{a0}{run}{a}{run}<")] {
                    roundtrip(ctx, &acc, &shp[1], &s, "", &mut local);
                    roundtrip(ctx, &acc, &shp[2], &s, "", &mut local);
                }
            }
        }
        acc.outcomes.lock().unwrap().extend(local);
    });
    // every character U+0001..U+00FF (no CR) and some from the other planes, alone and next to each special
    let mut singles: Vec<char> = (1u32..=0xFF).filter(|c| *c != 0x0D).filter_map(char::from_u32).collect();
    singles.extend(['\u{100}', '\u{7ff}', '\u{800}', '\u{c2a0}', '\u{2028}', '\u{feff}', '\u{fffd}', '\u{ffff}', '\u{10000}', '\u{10ffff}']);
    singles.par_iter().for_each(|&c| {
        let mut local = BTreeSet::new();
        for sp in ["", "&", "<", ">", "\"", "'", "\u{a0}", "a"] {
            for s in [format!("{c}{sp}"), format!("{sp}{c}"), format!("{c}{sp}{c}")] {
                if s.is_empty() {
                    continue;
                }
                roundtrip(ctx, &acc, &shp[1], &s, "", &mut local);
                roundtrip(ctx, &acc, &shp[2], &s, "", &mut local);
                roundtrip(ctx, &acc, &shp[3], &s, &s, &mut local);
            }
        }
        acc.outcomes.lock().unwrap().extend(local);
    });
    // (b) inner == outer, outer == spec serialization, over parsed trees
    let sig = crate::e2::sigma_full();
    let mut corpus: Vec<String> = vec![];
    for a in &sig {
        for b in &sig {
            corpus.push(format!("{a}{b}a<b&c\u{a0}\u{a2}\"d"));
        }
    }
    for raw in ["style", "script", "xmp", "iframe", "noembed", "noframes", "plaintext", "noscript", "title", "textarea", "pre", "listing"] {
        for body in ["a<b&c>d\u{a0}\u{a2}\"", "\n\nx", "&amp;"] {
            corpus.push(format!("<{raw}>{body}</{raw}>z"));
            corpus.push(format!("<svg><{raw}>{body}</{raw}></svg>z"));
            corpus.push(format!("<math><{raw}>{body}</{raw}></math>z"));
            corpus.push(format!("<div><{raw}>{body}"));
        }
    }
    for s in [
        "<svg xlink:href='a&b' xml:lang=\"<\" xmlns:xlink=x xmlns=y><a xlink:href=\"&quot;\">t</a></svg>",
        "<math definitionurl=x><mi>a&b</mi><annotation-xml encoding=text/html><style>a<b</style></annotation-xml>",
        "<template><style>a<b</style>x&y</template>",
        "<br><img alt='<>&\"\u{a0}'><input value=\u{a2}>",
        "<!-- c --><!DOCTYPE html><p id='\u{a0}\u{a2}\u{80}'>\u{a0}\u{a2}\u{80}\u{c2a0}",
        "<table><tr><td>a&b<caption>x<y",
        "<select><option>a&b<optgroup label='<'>",
    ] {
        corpus.push(s.to_string());
    }
    corpus.par_iter().for_each(|input| {
        let mut local = BTreeSet::new();
        for scripting in [true, false] {
            inner_outer(ctx, &acc, input, scripting, &mut local);
        }
        acc.outcomes.lock().unwrap().extend(local);
    });
    // TraversalScope x create_missing_parent: unbalanced end_elem must not panic when asked not to
    {
        use html5ever::serialize::{HtmlSerializer, Serializer};
        let mut s = HtmlSerializer::new(Vec::new(), SerializeOpts { create_missing_parent: true, ..Default::default() });
        let r = guarded(move || {
            s.end_elem(html_name("div")).unwrap();
            s.end_elem(html_name("div")).unwrap();
            s.write_text("x<").unwrap();
            s.writer
        });
        acc.evals.fetch_add(1, Ordering::Relaxed);
        if r.is_err() {
            ctx.violation("create_missing_parent", "end_elem without start_elem with create_missing_parent=true", json!({"panic": format!("{r:?}")}));
        }
    }
    let _ = Namespace::from("");
    ctx.assume("vocabulary: div, span, section, x-y (none void / raw-text / implied-end / formatting / nesting-restricted); attributes id, data-x; strings over 22 symbols incl. & < > \" ' NBSP U+00A2 U+0080 U+FFFD U+1F600 LF; no empty or adjacent text nodes; no CR / NUL");
    ctx.assume("R-ser: 60-line transliteration of 'serializing HTML fragments' (attribute mode escapes & NBSP \" < >); used for outer == spec");
    ctx.finish(
        "exploration",
        json!({
            "evaluations": acc.evals.load(Ordering::Relaxed),
            "distinct_nontrivial": acc.outcomes.lock().unwrap().len(),
            "rule": format!("(a) 8 tree shapes x all strings of length <= {l1} (single-string shapes and s=t) and all pairs of strings of length <= {l2}: serialize(ChildrenOnly) -> parse_fragment(div) must reproduce the tree, output valid UTF-8; memchr windows: 0..=N a's with one/two specials at every position. (b) every element of every parsed tree of the corpus (all pairs of tree lexemes + raw-text/foreign specials) x scripting: IncludeNode == start tag + ChildrenOnly(Some(name)) + end tag, document serialization == R-ser. distinct_nontrivial = distinct serializations."),
            "exhaustive": true,
            "long_run_lengths": n_runs,
            "strings_single": single.len(),
            "strings_pairs": short.len() * short.len(),
            "inner_outer_inputs": corpus.len(),
            "samples": ["roundtrip shape=div>text s=\"a\\u{a2}b\"", "inner-outer input=<svg><style>a<b&c>d</style></svg>z element=svg|style", "roundtrip shape=span[id] s=\"\\\"'<\""],
        }),
    )
}

pub fn replay(ctx: &Ctx, v: &serde_json::Value) {
    let w = v["witness"].as_str().unwrap_or("");
    let acc = Acc { evals: AtomicU64::new(0), outcomes: Mutex::new(BTreeSet::new()) };
    let mut local = BTreeSet::new();
    let unq = |s: &str| -> String { serde_json::from_str(&crate::c01::rust_to_json_pub(s)).unwrap_or_default() };
    if let Some(rest) = w.strip_prefix("roundtrip shape=") {
        let (shape, rest) = rest.split_once(" s=").unwrap();
        let (s, t) = rest.rsplit_once(" t=").unwrap();
        let sh = shapes().into_iter().find(|x| x.0 == shape).unwrap();
        roundtrip(ctx, &acc, &sh, &unq(s), &unq(t), &mut local);
    } else if let Some(rest) = w.strip_prefix("inner-outer input=").or(w.strip_prefix("document input=")) {
        let i = rest.rfind(" scripting=").unwrap();
        let scripting = &rest[i + 11..] == "true";
        let inp = rest[..i].rsplit_once(" element=").map(|x| x.0).unwrap_or(&rest[..i]);
        inner_outer(ctx, &acc, &unq(inp), scripting, &mut local);
    }
    println!("replay: {}", if ctx.violations() == 0 { "passes" } else { "FAILS" });
}
